#!/usr/bin/env python3
"""py2lean_langtype — translate the construction of the language graph (maltoolbox/language/languagegraph.py) to Lean 4.

    py2lean_langtype.py <repo> <outdir>      writes <outdir>/<Module>.lean for every entry of MODULES
    py2lean_langtype.py <repo> --check <dir> exit 0 iff regenerated text == files in <dir>

Translated: LanguageGraph._generate_graph, process_step_expression, reverse_dep_chain,
_get_associations_for_asset_type, LanguageGraphAsset.get_all_common_superassets and (once more, at the signature the
callers in this file need: the argument may be None) LanguageGraphAsset.is_subasset_of.  The lookups that the `lang`
domain (translators/py2lean_lang.py) already translates are *called*, not re-translated (table EXTERN).

Same discipline as translators/py2lean.py / py2lean_lang.py (DESIGN.md §I.9): *syntax directed and thin*.  One Python
statement becomes one `do` statement (plus, in front of it, one `let` per object allocation / call of a function
that returns the heap, in Python's evaluation order).  Attribute read -> field read of the object's record in the
heap `s : TH`; `l.append(x)` on a list attribute -> in-place update of that attribute; a constructor call -> an
allocation; `raise` -> `throw`; recursion takes `fuel`; `while` a bounded unrolling; `match` an `if` chain on the
subject.  Everything that is not recognised raises `Unsupported` — the translator never guesses.  Dropped, and only
that: docstrings, calls on `logger` (also an `if logger.isEnabledFor(..)` around nothing but such calls), the
message of exceptions, locals that only feed those.

`MalVerif/Py/PreludeLangType.lean` says how the Python values appear in Lean (trusted); the tables SIGS, KEYS, ATTRS,
EXTERN below say which Python expression has which type (trusted; the annotations in the source are only `dict` /
`list` / `Any` / absent).
"""
from __future__ import annotations
import ast, os, sys

class Unsupported(Exception):
    pass

PYFILE = 'maltoolbox/language/languagegraph.py'

MODULES = {
    'Typing': [('LanguageGraphAsset', 'is_subasset_of'), ('LanguageGraphAsset', 'get_all_common_superassets'),
               ('LanguageGraph', 'process_step_expression'), ('LanguageGraph', 'reverse_dep_chain')],
    'Build': [('LanguageGraph', '_get_associations_for_asset_type'), ('LanguageGraph', '_generate_graph')],
}
MODULE_ORDER = ['Typing', 'Build']
IMPORTS = {'Typing': [], 'Build': ['Typing']}
LANG_IMPORTS = {'Typing': ['Assets', 'Assocs', 'Vars'], 'Build': ['Attacks']}

TIE = {
    'gen_dir': 'MalVerif/Py/GenLangType',
    'gen_modules': MODULE_ORDER,
    'order': 35,
    'chain': ['MalVerif.Py.AbsLangType', 'MalVerif.Py.TieLangTypePhases', 'MalVerif.Py.TieLangType',
              'MalVerif.Py.TieLangTypeBuild', 'MalVerif.Py.TieLangTypeSpec', 'MalVerif.Py.TieLangTypeFuel',
              'MalVerif.Py.TieLangTypeBuilt', 'MalVerif.Py.TieLangTypeHelpers',
              'MalVerif.Py.TieLangTypeComplete', 'MalVerif.Py.TieLangTypeSound', 'MalVerif.Py.TieLangTypeAssets',
              'MalVerif.Py.TieLangTypeDecl', 'MalVerif.Py.TieLangTypeAssocs', 'MalVerif.Py.TieLangTypeSteps',
              'MalVerif.Py.TieLangTypeLinks', 'MalVerif.Py.TieLangTypeGeneral', 'MalVerif.Py.TieLangTypeFinal',
              'MalVerif.Py.TieLangTypeRev', 'MalVerif.Py.TieLangTypeParam', 'MalVerif.Py.TieLangTypeTotal',
              'MalVerif.PropsGen.C15_Build'],
    'needs': {'C15': ['MalVerif.Py.TieLangTypePhases', 'MalVerif.Py.TieLangType', 'MalVerif.Py.TieLangTypeBuild',
                      'MalVerif.Py.TieLangTypeSpec', 'MalVerif.Py.TieLangTypeFuel', 'MalVerif.Py.TieLangTypeBuilt',
                      'MalVerif.Py.TieLangTypeHelpers', 'MalVerif.Py.TieLangTypeComplete',
                      'MalVerif.Py.TieLangTypeSound', 'MalVerif.Py.TieLangTypeAssets', 'MalVerif.Py.TieLangTypeDecl',
                      'MalVerif.Py.TieLangTypeAssocs', 'MalVerif.Py.TieLangTypeSteps', 'MalVerif.Py.TieLangTypeLinks',
                      'MalVerif.Py.TieLangTypeGeneral', 'MalVerif.Py.TieLangTypeFinal', 'MalVerif.Py.TieLangTypeRev',
                      'MalVerif.Py.TieLangTypeParam', 'MalVerif.Py.TieLangTypeTotal', 'MalVerif.PropsGen.C15_Build']},
    'sources': {'C15': 'language/languagegraph.py: LanguageGraph._generate_graph, process_step_expression, '
                       'reverse_dep_chain, _get_associations_for_asset_type; '
                       'LanguageGraphAsset.get_all_common_superassets, is_subasset_of (argument may be None)'},
}

# ------------------------------------------------------------------ the type tables (trusted)
# types: 'str' 'bool' 'nat' 'jsontext' 'none' | ('opt', T) ('list', T) ('dict', 'str', T) ('tuple', T..) | objects
CLASS_TYPE = {'LanguageGraph': 'lgraph', 'LanguageGraphAsset': 'gasset', 'LanguageGraphAssociation': 'gassoc'}
PREFIX = {'lgraph': 'lg_', 'gasset': 'lgasset_', 'gassoc': 'lgassoc_'}
PAIR = ('tuple', 'gstep', ('opt', 'depchain'))
TRIPLE = ('tuple', ('opt', 'gasset'), ('opt', 'depchain'), ('opt', 'str'))
SIGS = {
    ('gasset', 'is_subasset_of'): ([('opt', 'gasset')], 'bool'),
    ('gasset', 'get_all_common_superassets'): ([('opt', 'gasset')], 'strset'),
    ('lgraph', 'process_step_expression'): (['lspec', ('opt', 'gasset'), ('opt', 'depchain'), 'expr'], TRIPLE),
    ('lgraph', 'reverse_dep_chain'): ([('opt', 'depchain'), ('opt', 'depchain')], ('opt', 'depchain')),
    ('lgraph', '_get_associations_for_asset_type'): (['str'], ('list', 'assocd')),
    ('lgraph', '_generate_graph'): ([], 'none'),
}
# what the source's annotation must look like for a table type (a changed annotation is not silently accepted)
ANN_OK = {'str': {'str'}, 'bool': {'bool'}, 'lspec': {'dict'}, 'expr': {'dict'}, 'none': {'None'},
          ('opt', 'gasset'): {'LanguageGraphAsset', 'Optional[LanguageGraphAsset]'},
          ('opt', 'depchain'): {'Optional[DependencyChain]'}, 'strset': {'set[Optional[str]]'}, TRIPLE: {'tuple'},
          ('list', 'assocd'): {'list'}}
# functions translated by the `lang` domain (translators/py2lean_lang.py), called here:
# (receiver type, name) -> (lean name, heap projection, parameter types, result type, fuel, returns the heap)
EXTERN = {
    ('gasset', 'get_all_superassets'): ('GenLang.lgasset_get_all_superassets', 's.g', [], ('list', 'gasset'), None, False),
    ('gassoc', 'get_opposite_fieldname'): ('GenLang.lgassoc_get_opposite_fieldname', 's.g', ['str'], 'str', None, False),
    ('lgraph', '_get_variable_for_asset_type_by_name'):
        ('GenLang.lg__get_variable_for_asset_type_by_name', 's.spec', ['str', 'str'], 'varobj', '(pyFuelL s.spec)', False),
    ('lgraph', '_get_attacks_for_asset_type'):
        ('GenLang.lg__get_attacks_for_asset_type', 's.spec', ['str'], ('dict', 'str', 'stepref'), '(pyFuelL s.spec)', True),
}
# fuel a recursive function of this file gets when it is entered from another function
ENTRY_FUEL = {'lg_process_step_expression': 's.recLimit', 'lg_reverse_dep_chain': 's.recLimit',
              'lg__get_associations_for_asset_type': '(pyFuelL s.spec)'}
# d['key'] on the dictionaries of the language specification: type -> key -> (lean reader, result type)
KEYS = {
    'lspec': {'assets': ('s.spec.assets', ('list', 'assetd')), 'associations': ('s.spec.associations', ('list', 'assocd'))},
    'assetd': {'name': ('{x}.name', 'str'), 'superAsset': ('{x}.superAsset', ('opt', 'str')),
               'attackSteps': ('{x}.attackSteps', ('list', 'stepref')), 'variables': ('{x}.variables', ('list', 'vard')),
               'meta': ('{x}.metaTxt', 'jsontext'), 'isAbstract': ('{x}.isAbstract', 'bool')},
    'assocd': {'name': ('{x}.name', 'str'), 'leftAsset': ('{x}.leftAsset', 'str'), 'rightAsset': ('{x}.rightAsset', 'str'),
               'leftField': ('{x}.leftField', 'str'), 'rightField': ('{x}.rightField', 'str'),
               'meta': ('{x}.metaTxt', 'jsontext'),
               'leftMultiplicity': ('{x}', 'lmult'), 'rightMultiplicity': ('{x}', 'rmult')},
    'lmult': {'min': ('{x}.leftMin', 'nat'), 'max': ('{x}.leftMax', ('opt', 'nat'))},
    'rmult': {'min': ('{x}.rightMin', 'nat'), 'max': ('{x}.rightMax', ('opt', 'nat'))},
    'stepref': {'name': ('(s.spec.step {x}).name', 'str'), 'type': ('(s.spec.step {x}).type', 'str'),
                'reaches': ('(s.spec.step {x}).reaches', ('opt', 'reachref')),
                'ttc': ('(s.spec.step {x}).ttc', 'jsontext'), 'meta': ('(s.spec.step {x}).metaTxt', 'jsontext')},
    'reachref': {'overrides': ('(s.spec.reach {x}).overrides', 'bool'),
                 'stepExpressions': ('(s.spec.reach {x}).stepExpressions', 'listref')},
    'expr': {'type': ('{x}.type', 'str'), 'name': ('{x}.name', 'str'), 'subType': ('{x}.subType', 'str'),
             'lhs': ('{x}.lhs', 'expr'), 'rhs': ('{x}.rhs', 'expr'), 'stepExpression': ('{x}.stepExpression', 'expr')},
}
DICT_LISTS = ('dict', 'str', ('list', PAIR))
# obj.attr: type -> attr -> (lean reader, result type)
ATTRS = {
    'lgraph': {'_lang_spec': ('s', 'lspec'), 'assets': ('s.g.assets', ('list', 'gasset')),
               'associations': ('s.g.associations', ('list', 'gassoc')), 'attack_steps': ('s.attack_steps', ('list', 'gstep'))},
    'gasset': {'name': ('(s.g.asset {x}).name', ('opt', 'str')), 'super_assets': ('(s.g.asset {x}).super_assets', ('list', 'gasset')),
               'sub_assets': ('(s.g.asset {x}).sub_assets', ('list', 'gasset')),
               'associations': ('(s.g.asset {x}).associations', ('list', 'gassoc')),
               'attack_steps': ('(s.asteps {x})', ('list', 'gstep'))},
    'gassoc': {'name': ('(s.g.assoc {x}).name', 'str'), 'left_field': ('(s.g.assoc {x}).left_field', 'gfield'),
               'right_field': ('(s.g.assoc {x}).right_field', 'gfield')},
    'gfield': {'asset': ('{x}.asset', 'gasset'), 'fieldname': ('{x}.fieldname', 'str')},
    'gstep': {'name': ('(s.gstep {x}).name', 'str'), 'asset': ('(s.gstep {x}).asset', 'gasset'),
              'attributes': ('(s.gstep {x}).attributes', ('opt', 'stepref')),
              'parents': ('(s.gstep {x}).parents', DICT_LISTS), 'children': ('(s.gstep {x}).children', DICT_LISTS)},
    'depchain': {'type': ('{x}.type', 'str'), 'next_link': ('{x}.next_link', ('opt', 'depchain')),
                 'fieldname': ('{x}.fieldname', 'str'), 'association': ('{x}.association', ('opt', 'gassoc')),
                 'left_chain': ('{x}.left_chain', ('opt', 'depchain')), 'right_chain': ('{x}.right_chain', ('opt', 'depchain')),
                 'subtype': ('{x}.subtype', ('opt', 'gasset'))},
}
# x.attr.append(v): (type, attr) -> statement
APPEND = {
    ('lgraph', 'assets'): 's := s.appendAssets {v}', ('lgraph', 'associations'): 's := s.appendAssociations {v}',
    ('lgraph', 'attack_steps'): 's := s.appendAttackSteps {v}',
    ('gasset', 'sub_assets'): 's := s.appendSub {x} {v}', ('gasset', 'super_assets'): 's := s.appendSuper {x} {v}',
    ('gasset', 'associations'): 's := s.appendAssoc {x} {v}', ('gasset', 'attack_steps'): 's := s.appendAStep {x} {v}',
}
SETATTR = {('gstep', 'attributes')}          # x.attr = v on a heap object; on a fresh chain object: every attribute
LEAN_TYPE = {'str': 'String', 'bool': 'Bool', 'nat': 'Nat', 'jsontext': 'String', 'stepref': 'SRef', 'reachref': 'RRef',
             'listref': 'LRef', 'assetd': 'PyAssetD', 'vard': 'PyVarD', 'assocd': 'PyAssocD', 'expr': 'PyExpr',
             'gasset': 'GARef', 'gassoc': 'GCRef', 'gstep': 'GSRef', 'gfield': 'PyLGField', 'varobj': 'PyVarObj',
             'depchain': 'PyDepChain', 'strset': '(List (Option String))'}
EXC = {'LanguageGraphSuperAssetNotFoundError': 'errSuperAssetNotFound', 'LanguageGraphAssociationError': 'errAssociation',
       'LanguageGraphStepExpressionError': 'errStepExpression', 'LanguageGraphException': 'errLanguageGraph'}
NEVER_EMPTY = ('assetd', 'vard', 'assocd', 'reachref', 'gasset', 'gassoc', 'gstep', 'depchain', 'stepref')
LEAN_KEYWORDS = {'end', 'at', 'from', 'have', 'show', 'fun', 'then', 'else', 'do', 'in', 'let', 'match', 'with', 'if',
                 'for', 'open', 'where', 'by', 'def', 'theorem', 'instance', 'structure', 'class', 'namespace',
                 'section', 'variable', 'universe', 'import', 'return', 'mut', 'unless', 'try', 'catch', 'finally',
                 'break', 'continue', 'calc', 'obtain', 'using', 'deriving', 'extends', 'local', 'private',
                 'protected', 'mutual', 'partial', 's', 'fuel', 'some', 'none', 'pure', 'type'}
MUTATORS = ('extend', 'append', 'remove', 'pop', 'insert', 'clear', 'update', 'sort', 'reverse', 'add', 'discard')

def lean_type(t):
    if t in LEAN_TYPE: return LEAN_TYPE[t]
    if isinstance(t, tuple) and t[0] == 'opt': return f'(Option {lean_type(t[1])})'
    if isinstance(t, tuple) and t[0] == 'list': return f'(List {lean_type(t[1])})'
    if isinstance(t, tuple) and t[0] == 'dict': return f'(List ({lean_type(t[1])} × {lean_type(t[2])}))'
    if isinstance(t, tuple) and t[0] == 'tuple': return '(' + ' × '.join(lean_type(x) for x in t[1:]) + ')'
    raise Unsupported(f'type {t}')

def unknown(t): return t == '?' or (isinstance(t, tuple) and any(unknown(x) for x in t[1:]))
def is_opt(t): return isinstance(t, tuple) and t[0] == 'opt'
def is_list(t): return isinstance(t, tuple) and t[0] == 'list'
def esc(n): return f'{n}_' if n in LEAN_KEYWORDS else n
def is_const(e, v=None): return isinstance(e, ast.Constant) and (v is None or e.value == v)
def is_none(e): return isinstance(e, ast.Constant) and e.value is None
def is_logger_call(e):
    return isinstance(e, ast.Call) and isinstance(e.func, ast.Attribute) and isinstance(e.func.value, ast.Name) \
        and e.func.value.id == 'logger'
def is_dropped(st):
    if isinstance(st, ast.Expr) and (is_logger_call(st.value) or (isinstance(st.value, ast.Constant) and isinstance(st.value.value, str))):
        return True
    # `if logger.isEnabledFor(..):` around nothing but logging
    return isinstance(st, ast.If) and is_logger_call(st.test) and not st.orelse and all(is_dropped(b) for b in st.body)
def live(stmts): return [s for s in stmts if not is_dropped(s)]
def always_jumps(stmts):
    """every path through the statements ends in return / raise"""
    l = live(stmts)
    if not l: return False
    last = l[-1]
    if isinstance(last, (ast.Return, ast.Raise)): return True
    if isinstance(last, ast.If): return bool(last.orelse) and always_jumps(last.body) and always_jumps(last.orelse)
    if isinstance(last, ast.Match):
        return any(isinstance(c.pattern, ast.MatchAs) and c.pattern.pattern is None and c.guard is None for c in last.cases) \
            and all(always_jumps(c.body) for c in last.cases)
    return False
def ends_in_jump(stmts):
    l = live(stmts)
    return bool(l) and isinstance(l[-1], (ast.Return, ast.Raise))
def assigned_names(stmts):
    """names the statements bind (the variables of comprehensions / generator expressions live in their own scope)"""
    out = set()
    def walk(n):
        if isinstance(n, (ast.GeneratorExp, ast.ListComp, ast.SetComp, ast.DictComp)):
            for c in n.generators: walk(c.iter)
            return
        if isinstance(n, ast.Name) and isinstance(n.ctx, (ast.Store, ast.Del)): out.add(n.id)
        for c in ast.iter_child_nodes(n): walk(c)
    for st in stmts: walk(st)
    return out
def mutated_locals(stmts):
    """local names the statements assign to or call a mutating method on"""
    out = assigned_names(stmts)
    for st in stmts:
        for n in ast.walk(st):
            if isinstance(n, ast.Call) and isinstance(n.func, ast.Attribute) and n.func.attr in MUTATORS \
                    and isinstance(n.func.value, ast.Name):
                out.add(n.func.value.id)
    return out

# ------------------------------------------------------------------ function table
class Fn:
    def __init__(self, module, cls, node):
        self.module, self.cls, self.node, self.pyname = module, cls, node, node.name
        self.selftype = CLASS_TYPE[cls]
        self.lean = PREFIX[self.selftype] + node.name
        if (self.selftype, node.name) not in SIGS: raise Unsupported(f'no signature for {cls}.{node.name}')
        ptypes, self.ret = SIGS[(self.selftype, node.name)]
        args = node.args
        if args.vararg or args.kwarg or args.kwonlyargs or args.defaults or args.posonlyargs:
            raise Unsupported(f'{node.name}: parameter list shape')
        if len(args.args) != len(ptypes) + 1 or args.args[0].arg != 'self':
            raise Unsupported(f'{node.name}: expected self + {len(ptypes)} parameters')
        for a, t in zip(args.args[1:], ptypes):
            if a.annotation is not None and ast.unparse(a.annotation).replace(' ', '') not in ANN_OK.get(t, ()):
                raise Unsupported(f'{node.name}: annotation of {a.arg} is {ast.unparse(a.annotation)}')
        if node.returns is not None and ast.unparse(node.returns).replace(' ', '') not in ANN_OK.get(self.ret, ()):
            raise Unsupported(f'{node.name}: return annotation {ast.unparse(node.returns)}')
        if node.decorator_list: raise Unsupported(f'{node.name}: decorators')
        self.params = [(args.args[0].arg, self.selftype)] + [(a.arg, t) for a, t in zip(args.args[1:], ptypes)]
        self.calls = set()
        self.mutates = False       # writes heap objects (directly or through a callee): returns the heap
        self.writes = set()        # (type, attr) of the list attributes it appends to; 'spec' for the specification heap
        self.recursive = False
        self.raises = None

def collect(repo, order):
    tree = ast.parse(open(os.path.join(repo, PYFILE), encoding='utf-8').read())
    classes = {c.name: c for c in tree.body if isinstance(c, ast.ClassDef)}
    fns, by_method = {}, {}
    for mod in order:
        for cls, name in MODULES[mod]:
            found = [n for n in classes[cls].body if isinstance(n, ast.FunctionDef) and n.name == name] if cls in classes else []
            if len(found) != 1: raise Unsupported(f'{PYFILE}: function {cls}.{name} not found (or defined twice)')
            f = Fn(mod, cls, found[0])
            fns[f.lean] = f; by_method[(f.selftype, name)] = f
    # `==` on the dataclasses is the generated value comparison only as long as the class does not define its own;
    # the constructor calls below rely on the field lists
    want_fields = {
        'LanguageGraphAsset': ['name', 'associations', 'attack_steps', 'description', 'super_assets', 'sub_assets', 'is_abstract'],
        'LanguageGraphAssociationField': ['asset', 'fieldname', 'minimum', 'maximum'],
        'LanguageGraphAssociation': ['name', 'left_field', 'right_field', 'description'],
        'LanguageGraphAttackStep': ['name', 'type', 'asset', 'ttc', 'children', 'parents', 'description', 'attributes'],
    }
    for cls, fields in want_fields.items():
        c = classes.get(cls)
        if c is None: raise Unsupported(f'class {cls} not found')
        if any(isinstance(n, ast.FunctionDef) and n.name in ('__eq__', '__ne__', '__hash__', '__bool__', '__len__', '__init__',
                                                              '__post_init__', '__setattr__', '__getattr__') for n in c.body):
            raise Unsupported(f'{cls} defines its own comparison / truthiness / construction')
        decs = [ast.unparse(d) for d in c.decorator_list]
        if decs != ['dataclass']: raise Unsupported(f'{cls}: decorators {decs} (prelude assumes a plain @dataclass)')
        got = [n.target.id for n in c.body if isinstance(n, ast.AnnAssign) and isinstance(n.target, ast.Name)]
        if got != fields: raise Unsupported(f'{cls}: fields {got}')
    dc = classes.get('DependencyChain')
    if dc is None: raise Unsupported('class DependencyChain not found')
    init = [n for n in dc.body if isinstance(n, ast.FunctionDef) and n.name == '__init__']
    want_init = ['self.type = type', 'self.next_link: Optional[DependencyChain] = next_link', "self.fieldname: str = ''",
                 'self.association: Optional[LanguageGraphAssociation] = None', 'self.left_chain: Optional[DependencyChain] = None',
                 'self.right_chain: Optional[DependencyChain] = None', 'self.subtype: Optional[Any] = None',
                 'self.current_link: Optional[DependencyChain] = None']
    if len(init) != 1 or [a.arg for a in init[0].args.args] != ['self', 'type', 'next_link'] or \
            [ast.unparse(b) for b in init[0].body] != want_init:
        raise Unsupported('DependencyChain.__init__ is not the constructor the prelude describes')
    if any(isinstance(n, ast.FunctionDef) and n.name in ('__eq__', '__bool__', '__len__', '__setattr__', '__getattr__') for n in dc.body):
        raise Unsupported('DependencyChain defines its own comparison / truthiness')
    return fns, by_method

def analyse(fns):
    by_name = {}
    for f in fns.values(): by_name.setdefault(f.pyname, []).append(f)
    ext_by_name = {}
    for (rt, name), e in EXTERN.items(): ext_by_name.setdefault(name, []).append(e)
    for f in fns.values():
        for n in ast.walk(f.node):
            if isinstance(n, ast.Call) and isinstance(n.func, ast.Attribute):
                if n.func.attr in MUTATORS and not isinstance(n.func.value, ast.Name):
                    f.mutates = True
                for g in by_name.get(n.func.attr, []): f.calls.add(g.lean)
                for e in ext_by_name.get(n.func.attr, []):
                    if e[5]: f.mutates = True; f.writes.add('spec')
            if isinstance(n, ast.Call) and isinstance(n.func, ast.Name) and n.func.id in \
                    ('LanguageGraphAsset', 'LanguageGraphAssociation', 'LanguageGraphAttackStep'):
                f.mutates = True
            if isinstance(n, (ast.Assign, ast.AugAssign, ast.Delete)):
                tgts = n.targets if not isinstance(n, ast.AugAssign) else [n.target]
                for t in tgts:
                    if isinstance(t, ast.Subscript) and not isinstance(t.value, ast.Name): f.mutates = True
                    # attribute assignment: on a fresh chain object it is a functional update (checked when translating)
                    if isinstance(t, ast.Attribute) and t.attr in ('attributes',): f.mutates = True
    changed = True
    while changed:
        changed = False
        for f in fns.values():
            for c in f.calls:
                if fns[c].mutates and not f.mutates: f.mutates = True; changed = True
    for f in fns.values():
        f.recursive = f.lean in f.calls
        seen, todo = set(), list(f.calls)
        while todo:
            c = todo.pop()
            if c in seen: continue
            seen.add(c); todo.extend(fns[c].calls)
        if f.lean in seen and not f.recursive: raise Unsupported(f'mutual recursion through {f.lean}')
        if f.mutates and f.recursive: raise Unsupported(f'{f.lean}: recursive function that writes the heap')
    order, done = [], set()
    def visit(f):
        if f.lean in done: return
        done.add(f.lean)
        for c in sorted(f.calls):
            if c != f.lean: visit(fns[c])
        order.append(f)
    for f in fns.values(): visit(f)
    return order

# ------------------------------------------------------------------ translation of one function
class Tr:
    def __init__(self, fn, fns, by_method):
        self.fn, self.fns, self.by_method = fn, fns, by_method
        self.locals = {}           # python name -> type
        self.narrow = {}           # ast.dump(expr) -> (lean, type)
        self.scopes = [[]]
        self.lines = []
        self.tmp = 0
        self.ind = 0
        self.in_loop = 0
        self.cond_depth = 0        # > 0 while translating an operand that Python may skip
        self.checked = set()       # locals whose `None` check (`pyNotNone`) dominates the current statement
        self.fresh_chain = set()   # locals bound to a chain object that nothing else refers to yet
        self.gens = {}             # local name of a generator object -> element type
        self.loop_bodies = []      # enclosing loop bodies (for the snapshot check)

    def fresh(self, base):
        self.tmp += 1
        return f'{base}_{self.tmp}'
    def emit(self, s): self.lines.append('  ' * self.ind + s)

    def not_none(self, x):
        """the implicit `None` check of an attribute read / subscript / method call; outside an operand Python may skip it
        dominates everything that follows in the block (used by `logger_arg` to not repeat it)"""
        if self.cond_depth == 0 and x.isidentifier(): self.checked.add(x)
        return f'(← pyNotNone {x})'

    def invalidate(self, name):
        self.checked.discard(esc(name))
        for k in [k for k in self.narrow if f"Name(id='{name}'" in k]: del self.narrow[k]
        self.fresh_chain.discard(name)

    # ---- truthiness
    def truthy(self, x, t):
        if t == 'bool': return x
        if is_list(t) or t == 'strset': return f'!({x}).isEmpty'
        if is_opt(t) and t[1] in NEVER_EMPTY:
            return f'({x}).isSome'          # these dictionaries / objects are never empty / define no __bool__, __len__
        if t == ('opt', 'str'): return f'(pyTruthyStr {x}).isSome'
        if t == 'varobj': return f'({x}).truthy'
        raise Unsupported(f'truthiness of type {t}')

    # ---- expressions: (lean text, type)
    def expr(self, e):
        key = ast.dump(e)
        if key in self.narrow: return self.narrow[key]
        if isinstance(e, ast.Constant):
            v = e.value
            if v is True: return 'true', 'bool'
            if v is False: return 'false', 'bool'
            if v is None: return 'none', ('opt', '?')
            if isinstance(v, str): return '"' + v.replace('\\', '\\\\').replace('"', '\\"') + '"', 'str'
            raise Unsupported(f'constant {v!r}')
        if isinstance(e, ast.Name):
            if e.id in self.gens: raise Unsupported(f'generator object {e.id} used as a value')
            if e.id in self.locals:
                self.fresh_chain.discard(e.id)      # the chain object now has a second reference
                return esc(e.id), self.locals[e.id]
            raise Unsupported(f'unknown name {e.id}')
        if isinstance(e, ast.Attribute):
            x, t = self.expr(e.value)
            if is_opt(t) and t[1] in ATTRS:         # attribute of a possibly-None object: AttributeError
                x, t = self.not_none(x), t[1]
            if t in ATTRS and e.attr in ATTRS[t]:
                rd, rt = ATTRS[t][e.attr]
                return rd.format(x=x), rt
            raise Unsupported(f'attribute {e.attr} of {t}')
        if isinstance(e, ast.Subscript):
            x, t = self.expr(e.value)
            if is_opt(t) and t[1] in KEYS:          # subscript on a possibly-None object: TypeError
                x, t = self.not_none(x), t[1]
            if t in KEYS:
                if isinstance(e.slice, ast.Constant) and e.slice.value in KEYS[t]:
                    rd, rt = KEYS[t][e.slice.value]
                    return rd.format(x=x), rt
                if t == 'assocd': return self.dynamic_key(x, e.slice)
                raise Unsupported(f'key {ast.unparse(e.slice)} of {t}')
            if t == DICT_LISTS: raise Unsupported('an entry of children / parents used as a value (it would be an alias)')
            if isinstance(t, tuple) and t[0] == 'dict':
                k, kt = self.expr(e.slice)
                if kt != t[1]: raise Unsupported(f'dict key type {kt}')
                return f'(← pyGetItem {x} {k})', t[2]
            raise Unsupported(f'subscript on {t}')
        if isinstance(e, ast.UnaryOp) and isinstance(e.op, ast.Not):
            x, t = self.expr(e.operand)
            return f'!({self.truthy(x, t)})', 'bool'
        if isinstance(e, ast.BoolOp): return self.boolop(e)
        if isinstance(e, ast.Compare): return self.compare(e)
        if isinstance(e, ast.Call): return self.call(e)
        if isinstance(e, ast.IfExp): return self.ifexp(e)
        if isinstance(e, ast.Dict):
            if not e.keys: return '[]', ('dict', 'str', '?')
            raise Unsupported('dict display')
        if isinstance(e, ast.List):
            parts = [self.expr(v) for v in e.elts]
            if not parts: return '[]', ('list', '?')
            ts = {t for _, t in parts}
            if len(ts) != 1: raise Unsupported('heterogeneous list display')
            return '[' + ', '.join(x for x, _ in parts) + ']', ('list', ts.pop())
        if isinstance(e, ast.Tuple):
            parts = [self.expr(v) for v in e.elts]
            return '(' + ', '.join(x for x, _ in parts) + ')', ('tuple',) + tuple(t for _, t in parts)
        raise Unsupported(f'expression {ast.unparse(e)}')

    def dynamic_key(self, x, sl):
        """association[side + 'Asset'] where `side` is the variable of an enclosing `for side in (<constants>)`"""
        if isinstance(sl, ast.BinOp) and isinstance(sl.op, ast.Add) and isinstance(sl.left, ast.Name) and is_const(sl.right) \
                and isinstance(sl.right.value, str) and sl.left.id in self.const_loops:
            keys = [v + sl.right.value for v in self.const_loops[sl.left.id]]
            if all(k in KEYS['assocd'] and KEYS['assocd'][k][1] == 'str' for k in keys):
                return f'(pyAssocStr {x} ({esc(sl.left.id)} ++ "{sl.right.value}"))', 'str'
        raise Unsupported(f'computed key {ast.unparse(sl)}')

    def no_alloc_here(self, what):
        if self.cond_depth: raise Unsupported(f'{what} writes the heap inside an operand that may be skipped')
        if not self.fn.mutates: raise Unsupported(f'{what} writes the heap in a function classified as read-only')

    def guarded(self, x, rty='Bool'):
        """an operand Python may skip: its raising reads stay inside"""
        return f'(do pure ({x}) : Except PyErr {rty})' if '(← ' in x else None

    def boolop(self, e):
        is_and = isinstance(e.op, ast.And)
        parts = []
        for i, v in enumerate(e.values):
            if i: self.cond_depth += 1
            try:
                x, t = self.expr(v)
            finally:
                if i: self.cond_depth -= 1
            parts.append(self.truthy(x, t))
        res = parts[-1]
        for p in reversed(parts[:-1]):
            if '(← ' in res:
                res = (f'(← (if {p} then (do pure ({res}) : Except PyErr Bool) else pure false))' if is_and else
                       f'(← (if {p} then (pure true : Except PyErr Bool) else (do pure ({res}))))')
            else:
                res = f'({p} && {res})' if is_and else f'({p} || {res})'
        return res, 'bool'

    def ifexp(self, e):
        c, ct = self.expr(e.test)
        self.cond_depth += 1
        try:
            a, at = self.expr(e.body); b, bt = self.expr(e.orelse)
        finally:
            self.cond_depth -= 1
        if at == 'listref' and bt == ('list', '?'):
            self.snapshot_check()
            a, at, bt = f'(s.exprList {a})', ('list', 'expr'), ('list', 'expr')
        if at != bt or unknown(at): raise Unsupported(f'conditional expression of types {at} / {bt}')
        return f'(← (if {self.truthy(c, ct)} then (do pure ({a}) : Except PyErr {lean_type(at)}) else (do pure ({b}))))', at

    def snapshot_check(self):
        """the content of a list object of the specification is read at once: nothing in the enclosing loop body
        (the whole function outside loops) may write the specification heap"""
        body = self.loop_bodies[0] if self.loop_bodies else self.fn.node.body
        for st in body:
            for n in ast.walk(st):
                if isinstance(n, ast.Call) and isinstance(n.func, ast.Attribute):
                    if any(k[1] == n.func.attr and v[5] for k, v in EXTERN.items()):
                        raise Unsupported('a list of the specification is read at once while the specification heap is written')
                    if n.func.attr in MUTATORS and not isinstance(n.func.value, ast.Name):
                        try: _, t = self.expr(n.func.value)
                        except Unsupported: t = None
                        if t == 'listref': raise Unsupported('a list of the specification is read at once and written')

    def compare(self, e):
        if len(e.ops) != 1: raise Unsupported('chained comparison')
        op, rhs = e.ops[0], e.comparators[0]
        if is_none(rhs) and isinstance(op, (ast.Is, ast.IsNot)):
            x, t = self.expr(e.left)
            if not is_opt(t): raise Unsupported(f'comparison of {t} with None')
            return (f'({x}).isNone' if isinstance(op, ast.Is) else f'({x}).isSome'), 'bool'
        l, lt = self.expr(e.left)
        r, rt = self.expr(rhs)
        if isinstance(op, (ast.In, ast.NotIn)):
            if isinstance(rt, tuple) and rt[0] == 'dict' and lt == rt[1]: res = f'(dictIn {r} {l})'
            elif rt == 'strset' and lt == ('opt', 'str'): res = f'(({r}).contains {l})'
            elif rt == ('list', 'gassoc') and lt == 'gassoc': res = f'(pyInAssocs s {l} {r})'
            else: raise Unsupported(f'membership of {lt} in {rt}')
            return (res if isinstance(op, ast.In) else f'!{res}'), 'bool'
        if isinstance(op, (ast.Eq, ast.NotEq)):
            if lt == rt and lt in ('str', 'bool'): res = f'({l} == {r})'
            elif lt == ('opt', 'str') and rt == 'str': res = f'({l} == some {r})'        # None == 'x' is False
            elif lt == 'str' and rt == ('opt', 'str'): res = f'(some {l} == {r})'
            elif lt == rt == 'gasset': res = f'(lgAssetEq s.g {l} {r})'                  # dataclass value equality
            elif lt == 'gasset' and rt == ('opt', 'gasset'): res = f'(lgAssetEqOpt s.g {l} {r})'
            elif is_list(lt) and not unknown(lt) and rt == ('list', '?') and r == '[]': res = f'({l}).isEmpty'
            else: raise Unsupported(f'== between {lt} and {rt}')
            return (res if isinstance(op, ast.Eq) else f'!{res}'), 'bool'
        raise Unsupported(f'comparison {ast.unparse(e)}')

    def gen_parts(self, g, need_elt_is_var=True):
        """(elt for v in L if c): lean iterable, lambda for the condition, variable, element type, elt lean/type"""
        if not isinstance(g, ast.GeneratorExp) or len(g.generators) != 1: raise Unsupported('generator shape')
        c = g.generators[0]
        if c.is_async or not isinstance(c.target, ast.Name): raise Unsupported('generator shape')
        if need_elt_is_var and not (isinstance(g.elt, ast.Name) and g.elt.id == c.target.id): raise Unsupported('generator shape')
        it, itt = self.expr(c.iter)
        if not is_list(itt) or unknown(itt): raise Unsupported(f'generator over {itt}')
        v = c.target.id
        saved = self.locals.get(v); self.locals[v] = itt[1]
        saved_narrow = dict(self.narrow); self.invalidate(v)
        self.cond_depth += 1
        try:
            conds = [self.expr(x) for x in c.ifs]
            elt = self.expr(g.elt)
        finally:
            self.cond_depth -= 1
            self.narrow = saved_narrow
            if saved is None: del self.locals[v]
            else: self.locals[v] = saved
        body = ' && '.join(self.truthy(x, t) for x, t in conds) or 'true'
        if '(← ' in body or '(← ' in elt[0]: raise Unsupported('generator condition / element that may raise')
        return it, f'(fun {esc(v)} => {body})', esc(v), itt[1], elt, bool(c.ifs)

    def args_for(self, what, ptypes, args):
        if len(args) != len(ptypes): raise Unsupported(f'call of {what}: arity')
        out = []
        for pt, a in zip(ptypes, args):
            x, t = self.expr(a)
            if pt == 'lspec':
                if t != 'lspec': raise Unsupported(f'call of {what}: specification argument')
                continue
            out.append(self.coerce(x, t, pt, arg=True))
        return out

    def call(self, e):
        f = e.func
        if isinstance(f, ast.Name) and f.id in ('LanguageGraphAsset', 'LanguageGraphAssociation', 'LanguageGraphAttackStep',
                                                'LanguageGraphAssociationField', 'DependencyChain'):
            return self.construct(f.id, e)
        if e.keywords: raise Unsupported('keyword arguments')
        if isinstance(f, ast.Name) and f.id == 'next' and len(e.args) == 2 and is_none(e.args[1]):
            if isinstance(e.args[0], ast.Name) and e.args[0].id in self.gens:
                raise Unsupported('next() on a generator object outside an assignment')
            it, fun, v, et, _, _ = self.gen_parts(e.args[0])
            return f'({it}.find? {fun})', ('opt', et)
        if isinstance(f, ast.Name) and f.id == 'next' and len(e.args) == 1:
            it, fun, v, et, _, _ = self.gen_parts(e.args[0])
            return f'(← pyNext ({it}.find? {fun}))', et
        if isinstance(f, ast.Name) and f.id == 'any' and len(e.args) == 1:
            g = e.args[0]
            it, fun, v, et, elt, has_if = self.gen_parts(g, need_elt_is_var=False)
            if has_if: raise Unsupported('any() over a filtered generator')
            return f'({it}.any (fun {v} => {self.truthy(*elt)}))', 'bool'
        if isinstance(f, ast.Name) and f.id == 'set' and len(e.args) == 1:
            it, fun, v, et, elt, has_if = self.gen_parts(e.args[0], need_elt_is_var=False)
            if has_if or elt[1] != ('opt', 'str'): raise Unsupported('set() of this generator')
            return f'({it}.map (fun {v} => {elt[0]}))', 'strset'
        if isinstance(f, ast.Attribute):
            if f.attr == 'intersection' and len(e.args) == 1:
                a, at = self.expr(f.value); b, bt = self.expr(e.args[0])
                if at == bt == 'strset': return f'(pySetInter {a} {b})', 'strset'
                raise Unsupported('intersection of these types')
            try: recv, rt = self.expr(f.value)
            except Unsupported: recv, rt = None, None
            if is_opt(rt) and ((rt[1], f.attr) in self.by_method or (rt[1], f.attr) in EXTERN):
                recv, rt = self.not_none(recv), rt[1]           # method of a possibly-None object: AttributeError
            g = self.by_method.get((rt, f.attr))
            if g is not None:
                args = self.args_for(g.lean, [t for _, t in g.params[1:]], e.args)
                if g.selftype != 'lgraph': args.insert(0, recv)
                fuel = ''
                if g.recursive: fuel = 'fuel ' if g.lean == self.fn.lean else ENTRY_FUEL[g.lean] + ' '
                txt = (f'{g.lean} {fuel}s ' + ' '.join(args)).strip()
                if g.mutates:
                    self.no_alloc_here(f'call of {g.lean}')
                    if g.ret != 'none': raise Unsupported('heap-writing function with a result')
                    self.emit(f's ← {txt}')
                    return '()', 'none'
                if g.raises is None and g.lean != self.fn.lean: raise Unsupported(f'{g.lean} used before it is translated')
                if g.raises or g.lean == self.fn.lean: return f'(← {txt})', g.ret
                return f'({txt})', g.ret
            x = EXTERN.get((rt, f.attr))
            if x is not None:
                lean, heap, ptypes, ret, fuel, mut = x
                args = self.args_for(lean, ptypes, e.args)
                if rt != 'lgraph': args.insert(0, recv)
                txt = (f'{lean} ' + (fuel + ' ' if fuel else '') + heap + ' ' + ' '.join(args)).strip()
                if mut:
                    self.no_alloc_here(f'call of {lean}')
                    r = self.fresh('r')
                    self.emit(f'let {r} ← {txt}')
                    self.emit(f's := {{ s with spec := {r}.1 }}')
                    return f'{r}.2', ret
                return f'(← {txt})', ret
        raise Unsupported(f'call {ast.unparse(e)}')

    def construct(self, cls, e):
        kw = {k.arg: k.value for k in e.keywords}
        if None in kw: raise Unsupported('** in a constructor call')
        def val(name, want):
            x, t = self.expr(kw[name])
            return self.coerce(x, t, want)
        def empty(name, kind):
            v = kw[name]
            if not (isinstance(v, kind) and not (v.elts if kind is ast.List else v.keys)):
                raise Unsupported(f'{cls}: {name} is not an empty display')
        if cls == 'DependencyChain':
            if e.args or sorted(kw) != ['next_link', 'type']: raise Unsupported('DependencyChain(..) shape')
            return f'(PyDepChain.new {val("type", "str")} {val("next_link", ("opt", "depchain"))})', 'depchain'
        if cls == 'LanguageGraphAssociationField':
            if kw or len(e.args) != 4: raise Unsupported('LanguageGraphAssociationField(..) shape')
            parts = [self.expr(a) for a in e.args]
            a = self.coerce(*parts[0], 'gasset'); fn = self.coerce(*parts[1], 'str')
            mn = self.coerce(*parts[2], 'nat'); mx = self.coerce(*parts[3], ('opt', 'nat'))
            return (f'({{ asset := {a}, fieldname := {fn}, minimum := Int.ofNat {mn}, maximum := pyOptNatInt {mx} }} : PyLGField)',
                    'gfield')
        self.no_alloc_here(f'{cls}(..)')
        r = self.fresh('r')
        if cls == 'LanguageGraphAsset':
            if e.args or sorted(kw) != sorted(['name', 'associations', 'attack_steps', 'description', 'super_assets', 'sub_assets', 'is_abstract']):
                raise Unsupported('LanguageGraphAsset(..) shape')
            for n in ('associations', 'attack_steps', 'super_assets', 'sub_assets'): empty(n, ast.List)
            # keyword arguments are evaluated in the order they are written
            vals = {n: val(n, w) for n, w in [(k.arg, {'name': ('opt', 'str'), 'description': 'jsontext', 'is_abstract': ('opt', 'bool')}.get(k.arg))
                                              for k in e.keywords] if w}
            self.emit(f'let {r} := s.newAsset {vals["name"]} {vals["description"]} {vals["is_abstract"]}')
            self.emit(f's := {r}.1')
            return f'{r}.2', 'gasset'
        if cls == 'LanguageGraphAssociation':
            if e.args or sorted(kw) != ['description', 'left_field', 'name', 'right_field']: raise Unsupported('LanguageGraphAssociation(..) shape')
            want = {'name': 'str', 'left_field': 'gfield', 'right_field': 'gfield', 'description': 'jsontext'}
            vals = {k.arg: val(k.arg, want[k.arg]) for k in e.keywords}
            self.emit(f'let {r} := s.newAssoc {vals["name"]} {vals["left_field"]} {vals["right_field"]} {vals["description"]}')
            self.emit(f's := {r}.1')
            return f'{r}.2', 'gassoc'
        if cls == 'LanguageGraphAttackStep':
            if e.args or sorted(kw) != sorted(['name', 'type', 'asset', 'ttc', 'children', 'parents', 'description']):
                raise Unsupported('LanguageGraphAttackStep(..) shape')
            empty('children', ast.Dict); empty('parents', ast.Dict)
            want = {'name': 'str', 'type': 'str', 'asset': 'gasset', 'ttc': 'jsontext', 'description': 'jsontext'}
            vals = {k.arg: val(k.arg, want[k.arg]) for k in e.keywords if k.arg in want}
            self.emit(f'let {r} := s.newStep {vals["name"]} {vals["type"]} {vals["asset"]} {vals["ttc"]} {vals["description"]}')
            self.emit(f's := {r}.1')
            return f'{r}.2', 'gstep'
        raise Unsupported(f'constructor {cls}')

    # ---- local variables
    def declare(self, name, t, value, fresh_chain=False):
        self.invalidate(name)
        narrowed = None
        if name in self.locals:
            cur = self.locals[name]
            if cur != t:
                if cur == ('opt', '?') and not is_opt(t) and not unknown(t):
                    cur = self.locals[name] = ('opt', t); self.var_types[name] = cur
                if unknown(cur) and not unknown(t) and (cur == '?' or cur[0] == t[0]):
                    self.locals[name] = t
                elif is_opt(cur) and cur[1] == t:
                    narrowed = (value, t)
                    value = f'(some {value})'
                elif t == ('opt', '?') and is_opt(cur): pass
                elif unknown(t) and isinstance(cur, tuple) and t[0] == cur[0]: pass
                else: raise Unsupported(f'local {name} changes type from {cur} to {t}')
            self.emit(f'{esc(name)} := {value}')
        else:
            t2 = self.var_types.get(name)
            if t2 is not None and not unknown(t2) and t2 != t:
                if is_opt(t2) and t2[1] == t:
                    narrowed = (value, t); value = f'(some {value})'; t = t2
                elif unknown(t) and isinstance(t2, tuple) and t[0] == t2[0]: t = t2
                else: raise Unsupported(f'local {name} has type {t} here and {t2} elsewhere')
            if unknown(t) and not self.dry: raise Unsupported(f'type of local {name}')
            self.locals[name] = t
            self.scopes[-1].append(name)
            ann = '' if unknown(t) else f' : {lean_type(t)}'
            self.emit(f'let mut {esc(name)}{ann} := {value}')
        if narrowed is not None and all(c.isalnum() or c in '_.' for c in narrowed[0]):
            self.narrow[ast.dump(ast.Name(id=name, ctx=ast.Load()))] = narrowed      # x = <object>: x is not None from here on
        if fresh_chain: self.fresh_chain.add(name)
        if not unknown(self.locals[name]):
            old = self.var_types.get(name)
            if old is None or unknown(old) or (is_opt(self.locals[name]) and self.locals[name][1] == old):
                self.var_types[name] = self.locals[name]

    def block(self, stmts, pre=None):
        self.ind += 1
        self.scopes.append([])
        n0 = len(self.lines)
        saved_narrow = dict(self.narrow)
        saved_fresh = set(self.fresh_chain)
        saved_checked = set(self.checked)
        if pre: pre()
        for st in stmts: self.stmt(st)
        if len(self.lines) == n0: self.emit('pure ()')
        for v in self.scopes.pop():
            del self.locals[v]; self.gens.pop(v, None)
        self.narrow = saved_narrow
        self.fresh_chain = saved_fresh
        self.checked = saved_checked
        for n in assigned_names(stmts): self.invalidate(n)      # what the block re-assigned is no longer known
        self.ind -= 1

    def ret_value(self, x):
        if self.fn.mutates: return f'return (s, {x})' if self.fn.ret != 'none' else 'return s'
        return f'return {x}'

    def coerce(self, x, t, want, arg=False):
        if t == want: return x
        if is_opt(want):
            if t == want[1]: return f'(some {x})'
            if t == ('opt', '?'): return 'none'
        if isinstance(want, tuple) and want[0] in ('list', 'dict') and unknown(t) and isinstance(t, tuple) and t[0] == want[0]: return x
        if isinstance(want, tuple) and want[0] == 'tuple' and isinstance(t, tuple) and t[0] == 'tuple' and len(t) == len(want):
            raise Unsupported('tuple coercion outside return')
        if arg and want == 'str' and t == ('opt', 'str'): return f'(← pyStr {x})'
        if arg and want == 'expr' and t == 'varobj': return f'(← pyVarObjExpr {x})'
        if want in ('gasset', 'gassoc', 'gstep') and t == ('opt', want): return f'(← pyNotNone {x})'     # prelude convention 2
        raise Unsupported(f'cannot use {t} as {want}')

    # ---- statements
    def logger_arg(self, e, guarded):
        """an argument of a dropped `logger` call is still EVALUATED by Python.  Droppable (cannot raise): constants, names,
        `%` / `+` of those, `x.attr` / `x['key']` on a local of a non-Optional (or narrowed) type with that attribute / key in
        the type tables, `<str>.capitalize()`, `json.dumps(<droppable>, indent = <constant>)`, `logging.<LEVEL>`.  `x.attr`
        / `x['key']` on a local whose type is Optional: Python's implicit `None` check is emitted in front of the next
        statement (`pyNotNone`: AttributeError / TypeError, prelude convention 11) - not inside an `isEnabledFor` guard
        (level dependent).  Everything else is refused."""
        if isinstance(e, (ast.Constant, ast.Name)): return
        if isinstance(e, ast.BinOp) and isinstance(e.op, (ast.Mod, ast.Add)):
            self.logger_arg(e.left, guarded); self.logger_arg(e.right, guarded); return
        if isinstance(e, ast.Tuple):
            for x in e.elts: self.logger_arg(x, guarded)
            return
        if isinstance(e, ast.Attribute) and isinstance(e.value, ast.Name) and e.value.id == 'logging': return
        if isinstance(e, (ast.Attribute, ast.Subscript)) and isinstance(e.value, ast.Name):
            name = e.value.id
            table = ATTRS if isinstance(e, ast.Attribute) else KEYS
            if ast.dump(ast.Name(id=name, ctx=ast.Load())) in self.narrow: t = self.narrow[ast.dump(ast.Name(id=name, ctx=ast.Load()))][1]
            elif name in self.locals: t = self.locals[name]
            else: raise Unsupported(f'logger argument {ast.unparse(e)}: unknown name')
            base = t[1] if is_opt(t) else t
            if isinstance(e, ast.Attribute): known = base in table and e.attr in table[base]
            elif is_const(e.slice): known = base in table and e.slice.value in table[base]
            else:
                self.dynamic_key(esc(name), e.slice); known = base == 'assocd'
            if not known: raise Unsupported(f'logger argument {ast.unparse(e)}: not in the type tables')
            if is_opt(t) and esc(name) not in self.checked:
                if guarded: raise Unsupported(f'logger argument {ast.unparse(e)} may raise inside a logging-level guard')
                self.emit(f'let _ ← pyNotNone {esc(name)}'); self.checked.add(esc(name))
            return
        if isinstance(e, ast.Call) and isinstance(e.func, ast.Attribute) and isinstance(e.func.value, ast.Name):
            if e.func.value.id == 'json' and e.func.attr == 'dumps' and all(is_const(k.value) for k in e.keywords):
                for x in e.args: self.logger_arg(x, guarded)
                return
            if e.func.attr == 'capitalize' and not e.args and not e.keywords and \
                    (self.locals.get(e.func.value.id) == 'str' or e.func.value.id in self.const_loops): return
        raise Unsupported(f'logger argument {ast.unparse(e)} may raise')

    def dropped(self, st, guarded=False):
        """a dropped statement: the arguments of a `logger` call are inspected (`logger_arg`)"""
        if isinstance(st, ast.Expr) and is_logger_call(st.value):
            for a in list(st.value.args) + [k.value for k in st.value.keywords]: self.logger_arg(a, guarded)
        elif isinstance(st, ast.If):
            for b in st.body: self.dropped(b, True)

    def stmt(self, st):
        if is_dropped(st): return self.dropped(st)
        if isinstance(st, ast.Pass): return
        if isinstance(st, (ast.Assign, ast.AnnAssign)): return self.assign(st)
        if isinstance(st, ast.Expr) and isinstance(st.value, ast.Call): return self.call_stmt(st.value)
        if isinstance(st, ast.If): return self.if_(st)
        if isinstance(st, ast.Match): return self.match_(st)
        if isinstance(st, ast.For): return self.for_(st)
        if isinstance(st, ast.While): return self.while_(st)
        if isinstance(st, ast.Continue):
            if not self.in_loop: raise Unsupported('continue outside a loop')
            self.emit('continue'); return
        if isinstance(st, ast.Return):
            if st.value is None or is_none(st.value):
                if self.fn.ret == 'none': self.emit('return s' if self.fn.mutates else 'return ()')
                elif is_opt(self.fn.ret): self.emit(self.ret_value('none'))
                else: raise Unsupported('bare return in a function with a result')
                return
            if isinstance(st.value, ast.Tuple) and isinstance(self.fn.ret, tuple) and self.fn.ret[0] == 'tuple':
                if len(st.value.elts) != len(self.fn.ret) - 1: raise Unsupported('return tuple arity')
                parts = [self.coerce(*self.expr(v), w) for v, w in zip(st.value.elts, self.fn.ret[1:])]
                self.emit(self.ret_value('(' + ', '.join(parts) + ')'))
                return
            x, t = self.expr(st.value)
            self.emit(self.ret_value(self.coerce(x, t, self.fn.ret)))
            return
        if isinstance(st, ast.Raise):
            name = None
            if isinstance(st.exc, ast.Call) and isinstance(st.exc.func, ast.Name): name = st.exc.func.id
            if name not in EXC: raise Unsupported(f'raise {ast.unparse(st.exc) if st.exc else ""}')
            self.emit(f'throw {EXC[name]}')
            return
        raise Unsupported(f'statement {type(st).__name__}: {ast.unparse(st)[:60]}')

    def assign(self, st):
        tgts = st.targets if isinstance(st, ast.Assign) else [st.target]
        if len(tgts) != 1 or st.value is None: raise Unsupported('assignment shape')
        tgt, v = tgts[0], st.value
        if isinstance(tgt, ast.Name):
            if tgt.id in self.unused:
                if not all(isinstance(n, (ast.Constant, ast.BinOp, ast.JoinedStr, ast.operator, ast.expr_context, ast.FormattedValue,
                                          ast.Name, ast.Tuple, ast.Mod)) for n in ast.walk(v)):
                    raise Unsupported(f'unused local {tgt.id} with a value that is not a plain message')
                return
            if tgt.id in self.const_loops: raise Unsupported(f'assignment to {tgt.id}, the variable of a loop over constants')
            # x = l.pop() on a local list
            if isinstance(v, ast.Call) and isinstance(v.func, ast.Attribute) and v.func.attr == 'pop' and not v.args \
                    and not v.keywords and isinstance(v.func.value, ast.Name):
                l, lt = self.expr(v.func.value)
                if not is_list(lt) or unknown(lt): raise Unsupported(f'pop on {lt}')
                p = self.fresh('p')
                self.emit(f'let {p} ← pyPop {l}')
                self.emit(f'{l} := {p}.2')
                self.declare(tgt.id, lt[1], f'{p}.1')
                return
            # g = (x for x in L if c): a generator object (prelude convention 7)
            if isinstance(v, ast.GeneratorExp):
                it, fun, var, et, _, _ = self.gen_parts(v)
                free = {n.id for c in v.generators[0].ifs for n in ast.walk(c) if isinstance(n, ast.Name)} - {v.generators[0].target.id}
                if free & assigned_names(self.fn.node.body): raise Unsupported('generator condition reads a name that is re-assigned')
                if tgt.id in self.locals or self.in_loop: raise Unsupported('generator object re-bound / created in a loop')
                self.locals[tgt.id] = ('list', et); self.scopes[-1].append(tgt.id); self.gens[tgt.id] = et
                self.emit(f'let mut {esc(tgt.id)} : {lean_type(("list", et))} := ({it}.filter {fun})')
                return
            # x = next(g, None) on a generator object
            if isinstance(v, ast.Call) and isinstance(v.func, ast.Name) and v.func.id == 'next' and len(v.args) == 2 \
                    and is_none(v.args[1]) and isinstance(v.args[0], ast.Name) and v.args[0].id in self.gens:
                gname = v.args[0].id
                p = self.fresh('p')
                self.emit(f'let {p} := pyNextOr {esc(gname)}')
                self.emit(f'{esc(gname)} := {p}.2')
                self.declare(tgt.id, ('opt', self.gens[gname]), f'{p}.1')
                return
            x, t = self.expr(v)
            if t == 'none': raise Unsupported('value of a call without result')
            self.declare(tgt.id, t, x, fresh_chain=(isinstance(v, ast.Call) and isinstance(v.func, ast.Name) and v.func.id == 'DependencyChain'))
            return
        if isinstance(tgt, ast.Tuple):
            # a, b, c = f(..)
            if not all(isinstance(n, ast.Name) for n in tgt.elts) or not isinstance(v, ast.Call): raise Unsupported('tuple assignment shape')
            x, t = self.expr(v)
            if not (isinstance(t, tuple) and t[0] == 'tuple' and len(t) - 1 == len(tgt.elts)): raise Unsupported(f'unpacking of {t}')
            if not x.startswith('(← ') or not x.endswith(')'): raise Unsupported('tuple assignment from something else than a call')
            r = self.fresh('r')
            self.emit(f'let {r} ← {x[3:-1]}')
            n = len(tgt.elts)
            for i, (nm, et) in enumerate(zip(tgt.elts, t[1:])):
                if nm.id == '_' or nm.id in self.unused: continue
                proj = f'{r}' + '.2' * i + ('.1' if i < n - 1 else '')
                self.declare(nm.id, et, proj)
            return
        if isinstance(tgt, ast.Attribute):
            # x.attr = v
            if isinstance(tgt.value, ast.Name) and self.locals.get(tgt.value.id) == 'depchain':
                if tgt.value.id not in self.fresh_chain:
                    raise Unsupported(f'attribute assignment on the chain object {tgt.value.id}, which may have a second reference')
                if tgt.attr not in ATTRS['depchain'] or tgt.attr in ('type', 'next_link'): raise Unsupported(f'chain attribute {tgt.attr}')
                x, t = self.expr(v)
                val = self.coerce(x, t, ATTRS['depchain'][tgt.attr][1])
                self.emit(f'{esc(tgt.value.id)} := {esc(tgt.value.id)}.set_{tgt.attr} {val}')
                return
            x, t = self.expr(v)
            b, bt = self.expr(tgt.value)
            if (bt, tgt.attr) in SETATTR:
                self.no_alloc_here('attribute assignment')
                val = self.coerce(x, t, ATTRS[bt][tgt.attr][1])
                self.emit(f's := s.setStepObj {b} {{ s.gstep {b} with {tgt.attr} := {val} }}')
                return
            raise Unsupported(f'assignment to {ast.unparse(tgt)}')
        if isinstance(tgt, ast.Subscript):
            x, t = self.expr(v)                          # Python evaluates the right-hand side first
            if isinstance(tgt.value, ast.Name):
                b, bt = self.expr(tgt.value)
                if isinstance(bt, tuple) and bt[0] == 'dict':
                    k, kt = self.expr(tgt.slice)
                    if kt != bt[1] or t != bt[2]: raise Unsupported('dict entry types')
                    self.emit(f'{esc(tgt.value.id)} := dictSet {b} {k} {x}')
                    return
            if isinstance(tgt.value, ast.Attribute) and tgt.value.attr in ('parents', 'children'):
                # o.parents[k] = [..]: the dictionary lives inside the step record (prelude convention 3)
                o, ot = self.expr(tgt.value.value)
                if ot == ('opt', 'gstep'): o, ot = f'(← pyNotNone {o})', 'gstep'
                if ot != 'gstep' or t != ('list', PAIR): raise Unsupported('entry of children / parents')
                k, kt = self.expr(tgt.slice)
                if kt != 'str': raise Unsupported('key type')
                self.no_alloc_here('dictionary write')
                ob = self.fresh('o')
                self.emit(f'let {ob} := {o}')
                self.emit(f's := s.setStepObj {ob} {{ s.gstep {ob} with {tgt.value.attr} := dictSet (s.gstep {ob}).{tgt.value.attr} {k} {x} }}')
                return
            raise Unsupported(f'assignment to {ast.unparse(tgt)} (an object the translation treats as immutable)')
        raise Unsupported(f'assignment target {ast.unparse(tgt)}')

    def call_stmt(self, c):
        f = c.func
        if isinstance(f, ast.Attribute) and f.attr == 'extend' and len(c.args) == 1 and not c.keywords and isinstance(f.value, ast.Name):
            l, lt = self.expr(f.value)
            m, mt = self.expr(c.args[0])
            if f.value.id in self.gens: raise Unsupported('extend of a generator')
            if is_list(lt) and is_list(mt):
                if unknown(lt): lt = mt; self.locals[f.value.id] = lt; self.var_types[f.value.id] = lt
                if lt != mt: raise Unsupported(f'extend of {mt} to {lt}')
                self.emit(f'{l} := {l} ++ {m}')
                return
        if isinstance(f, ast.Attribute) and f.attr == 'append' and len(c.args) == 1 and not c.keywords:
            if isinstance(f.value, ast.Name):                 # local list
                l, lt = self.expr(f.value)
                if f.value.id in self.gens: raise Unsupported('append to a generator')
                x, t = self.expr(c.args[0])
                if is_list(lt):
                    if unknown(lt): lt = ('list', t[1] if is_opt(t) and False else t); self.locals[f.value.id] = lt; self.var_types[f.value.id] = lt
                    self.emit(f'{l} := {l} ++ [{self.coerce(x, t, lt[1])}]')
                    return
            if isinstance(f.value, ast.Attribute):            # o.attr.append(v): a list attribute of a heap object
                o, ot = self.expr(f.value.value)
                if is_opt(ot) and ot[1] in ATTRS: o, ot = f'(← pyNotNone {o})', ot[1]
                if (ot, f.value.attr) in APPEND:
                    self.no_alloc_here('append to a list attribute')
                    x, t = self.expr(c.args[0])
                    val = self.coerce(x, t, ATTRS[ot][f.value.attr][1][1])
                    self.emit(APPEND[(ot, f.value.attr)].format(x=o, v=val))
                    return
            if isinstance(f.value, ast.Subscript) and isinstance(f.value.value, ast.Attribute) and f.value.value.attr in ('parents', 'children'):
                # o.parents[k].append(v)
                attr = f.value.value.attr
                o, ot = self.expr(f.value.value.value)
                if ot == ('opt', 'gstep'): o, ot = f'(← pyNotNone {o})', 'gstep'
                if ot != 'gstep': raise Unsupported('entry of children / parents')
                k, kt = self.expr(f.value.slice)
                if kt != 'str': raise Unsupported('key type')
                self.no_alloc_here('dictionary write')
                ob, d, l = self.fresh('o'), self.fresh('d'), self.fresh('l')
                self.emit(f'let {ob} := {o}')
                self.emit(f'let {d} := (s.gstep {ob}).{attr}')
                self.emit(f'let {l} ← pyGetItem {d} {k}')
                x, t = self.expr(c.args[0])
                if t != PAIR: raise Unsupported(f'element of type {t}')
                self.emit(f's := s.setStepObj {ob} {{ s.gstep {ob} with {attr} := dictSet {d} {k} ({l} ++ [{x}]) }}')
                return
        x, t = self.expr(c)
        if t == 'none': return                               # a call of a heap-writing function of this file (already emitted)
        raise Unsupported(f'statement {ast.unparse(c)[:80]}')

    def if_(self, st):
        if is_logger_call(st.test): raise Unsupported('logger call as condition')
        t0 = st.test
        jump = ends_in_jump(st.body) and not st.orelse
        # `if not x: <... return / raise>` on an Optional local: afterwards x is present
        if jump and isinstance(t0, ast.UnaryOp) and isinstance(t0.op, ast.Not) and isinstance(t0.operand, ast.Name):
            x, xt = self.expr(t0.operand)
            if is_opt(xt) and xt[1] in NEVER_EMPTY and ast.dump(t0.operand) not in self.narrow:
                v = self.fresh(t0.operand.id)
                self.emit(f'let some {v} := {x}')
                self.ind += 1
                self.emit('| do')
                self.block(st.body)
                self.ind -= 1
                self.narrow[ast.dump(t0.operand)] = (v, xt[1])
                return
        # `if not x: <...> else: <...>` on an Optional local: in the else branch x is present
        if st.orelse and isinstance(t0, ast.UnaryOp) and isinstance(t0.op, ast.Not) and isinstance(t0.operand, ast.Name):
            x, xt = self.expr(t0.operand)
            if is_opt(xt) and xt[1] in NEVER_EMPTY and ast.dump(t0.operand) not in self.narrow:
                v = self.fresh('v')
                self.emit(f'match {x} with')
                self.emit('| none =>')
                self.block(st.body)
                self.emit(f'| some {v} =>')
                key = ast.dump(t0.operand)
                self.block(st.orelse, pre=lambda: self.narrow.__setitem__(key, (v, xt[1])))
                return
        # `if x: <...>` on an Optional non-string local / attribute: inside, x is present
        if isinstance(t0, (ast.Name, ast.Attribute)):
            x, xt = self.expr(t0)
            if is_opt(xt) and xt[1] in NEVER_EMPTY + ('str',) and '(← ' not in x:
                scrut = f'(pyTruthyStr {x})' if xt[1] == 'str' else x
                v = self.fresh('v')
                self.emit(f'match {scrut} with')
                self.emit(f'| some {v} =>')
                key = ast.dump(t0)
                self.block(st.body, pre=lambda: self.narrow.__setitem__(key, (v, xt[1])))
                self.emit('| none =>')
                self.block(st.orelse)
                return
        if isinstance(t0, ast.Subscript):
            x, xt = self.expr(t0)
            if xt == ('opt', 'str') and '(← ' not in x:
                v = self.fresh('v')
                self.emit(f'match (pyTruthyStr {x}) with')
                self.emit(f'| some {v} =>')
                key = ast.dump(t0)
                self.block(st.body, pre=lambda: self.narrow.__setitem__(key, (v, 'str')))
                self.emit('| none =>')
                self.block(st.orelse)
                return
        c, ct = self.expr(t0)
        self.emit(f'if {self.truthy(c, ct)} then')
        self.block(st.body)
        if st.orelse:
            self.emit('else')
            self.block(st.orelse)

    def match_(self, st):
        x, t = self.expr(st.subject)
        if t != 'str' or '(← ' in x: raise Unsupported('match subject')
        sv = self.fresh('subject')
        self.emit(f'let {sv} := {x}')
        first = True
        seen_default = False
        for c in st.cases:
            if c.guard is not None or seen_default: raise Unsupported('match case shape')
            p = c.pattern
            pats = p.patterns if isinstance(p, ast.MatchOr) else [p]
            if len(pats) == 1 and isinstance(pats[0], ast.MatchAs) and pats[0].pattern is None and pats[0].name is None:
                seen_default = True
                if first: raise Unsupported('match with only a default')
                self.emit('else')
            else:
                if not all(isinstance(q, ast.MatchValue) and is_const(q.value) and isinstance(q.value.value, str) for q in pats):
                    raise Unsupported('match pattern')
                cond = ' || '.join(f'{sv} == "{q.value.value}"' for q in pats)
                self.emit(('if ' if first else 'else if ') + cond + ' then')
            self.block(c.body)
            first = False

    def for_(self, st):
        if st.orelse: raise Unsupported('for-else')
        # for side in ('left', 'right'): a loop over constants
        if isinstance(st.iter, ast.Tuple) and isinstance(st.target, ast.Name) and \
                all(is_const(x) and isinstance(x.value, str) for x in st.iter.elts):
            v = st.target.id
            if v in self.locals or v in assigned_names(st.body): raise Unsupported(f'loop variable {v}')
            self.locals[v] = 'str'; self.const_loops[v] = [x.value for x in st.iter.elts]
            self.emit(f'for {esc(v)} in [' + ', '.join(f'"{x.value}"' for x in st.iter.elts) + '] do')
            self.loop(st.body)
            del self.locals[v]; del self.const_loops[v]
            return
        # for k, v in d.items()
        if isinstance(st.target, ast.Tuple) and isinstance(st.iter, ast.Call) and isinstance(st.iter.func, ast.Attribute) \
                and st.iter.func.attr == 'items' and not st.iter.args and isinstance(st.iter.func.value, ast.Name) \
                and len(st.target.elts) == 2 and all(isinstance(n, ast.Name) for n in st.target.elts):
            d, dt = self.expr(st.iter.func.value)
            if not (isinstance(dt, tuple) and dt[0] == 'dict') or unknown(dt): raise Unsupported(f'items() of {dt}')
            if st.iter.func.value.id in mutated_locals(st.body): raise Unsupported('loop over a dictionary the body changes')
            k, v = st.target.elts[0].id, st.target.elts[1].id
            if k in self.locals or v in self.locals or {k, v} & assigned_names(st.body): raise Unsupported('loop variables')
            self.locals[k], self.locals[v] = dt[1], dt[2]
            self.emit(f'for ({esc(k)}, {esc(v)}) in {d} do')
            self.loop(st.body)
            del self.locals[k]; del self.locals[v]
            return
        if not isinstance(st.target, ast.Name): raise Unsupported('for shape')
        it, itt = self.expr(st.iter)
        if not is_list(itt) or unknown(itt): raise Unsupported(f'iteration over {itt}')
        if '(← ' in it: raise Unsupported('iterable that may raise')
        if isinstance(st.iter, ast.Name):
            # a local list: the body must not touch it
            if st.iter.id in mutated_locals(st.body) or st.iter.id in self.gens: raise Unsupported(f'loop over the local list {st.iter.id}, which the body changes')
        else:
            # a list attribute of a heap object / a list of the specification: the body must not write that attribute
            self.live_list_check(st.iter, st.body)
        v = st.target.id
        if v in self.locals: raise Unsupported(f'loop variable {v} shadows a local')
        self.locals[v] = itt[1]
        self.emit(f'for {esc(v)} in {it} do')
        rebinds = v in assigned_names(st.body)
        self.loop(st.body, pre=(lambda: self.emit(f'let mut {esc(v)} : {lean_type(itt[1])} := {esc(v)}')) if rebinds else None)
        del self.locals[v]
        self.invalidate(v)

    def loop(self, body, pre=None):
        self.in_loop += 1
        self.loop_bodies.append(body)
        self.block(body, pre=pre)
        self.loop_bodies.pop()
        self.in_loop -= 1

    def writes_of(self, stmts):
        """(type, attr) of the list attributes the statements may append to, transitively; 'spec' for the specification"""
        out = set()
        for st in stmts:
            for n in ast.walk(st):
                if isinstance(n, ast.Call) and isinstance(n.func, ast.Attribute):
                    if n.func.attr in MUTATORS and isinstance(n.func.value, ast.Attribute):
                        out.add(n.func.value.attr)
                    for (rt, name), g in self.by_method.items():
                        if name == n.func.attr: out |= g.writes
                    for (rt, name), x in EXTERN.items():
                        if name == n.func.attr and x[5]: out.add('spec')
        return out

    def live_list_check(self, it, body):
        w = self.writes_of(body)
        if isinstance(it, ast.Attribute):
            if it.attr in w: raise Unsupported(f'loop over the live list {ast.unparse(it)} whose body may change it')
            return
        if isinstance(it, ast.Subscript):
            x, t = self.expr(it.value)
            if t in ('lspec', 'assetd', 'assocd'): return      # immutable by refusal (no statement writes them)
        raise Unsupported(f'loop over {ast.unparse(it)}')

    def while_(self, st):
        """`while c:` -> at most `pyWhileFuelT s` rounds, then PyErr.nonTermination if `c` still holds"""
        if st.orelse: raise Unsupported('while-else')
        def cond():
            c, ct = self.expr(st.test)
            c = self.truthy(c, ct)
            if '(← ' in c: raise Unsupported('while condition that may raise')
            return c
        self.emit('for _ in List.range (pyWhileFuelT s) do')
        pre = None
        if isinstance(st.test, ast.Name) and is_opt(self.locals.get(st.test.id)) and self.locals[st.test.id][1] in NEVER_EMPTY:
            # `while x:` on an Optional local: inside (until it is re-assigned) x is present
            cond()
            v = self.fresh(st.test.id)
            x, xt = esc(st.test.id), self.locals[st.test.id]
            self.ind += 1
            self.emit(f'let some {v} := {x}')
            self.ind += 1; self.emit('| break'); self.ind -= 2
            key = ast.dump(st.test)
            pre = lambda: self.narrow.__setitem__(key, (v, xt[1]))
        else:
            self.ind += 1
            self.emit(f'if !({cond()}) then')
            self.ind += 1; self.emit('break'); self.ind -= 2
        self.loop(st.body, pre=pre)
        self.emit(f'if {cond()} then')
        self.ind += 1; self.emit('throw PyErr.nonTermination'); self.ind -= 1

    # ---- whole function
    def find_unused(self):
        assigned, read = set(), set()
        def walk(stmts):
            for st in stmts:
                if is_dropped(st) or isinstance(st, ast.Raise): continue
                for n in ast.iter_child_nodes(st):
                    if isinstance(n, ast.expr):
                        for m in ast.walk(n):
                            if isinstance(m, ast.Name):
                                (read if isinstance(m.ctx, ast.Load) else assigned).add(m.id)
                for fld in ('body', 'orelse', 'finalbody'):
                    if hasattr(st, fld) and isinstance(getattr(st, fld), list): walk(getattr(st, fld))
                for c in getattr(st, 'cases', []): walk(c.body)
        walk(self.fn.node.body)
        return assigned - read

    def translate(self):
        self.unused = self.find_unused()
        dry = Tr(self.fn, self.fns, self.by_method)
        dry.unused = self.unused; dry.dry = True; dry.var_types = {}; dry.const_loops = {}
        dry._translate()
        self.var_types = {k: v for k, v in dry.var_types.items() if not unknown(v)}
        self.dry = False; self.const_loops = {}
        return self._translate()

    dry = False
    def _translate(self):
        fn = self.fn
        params = []
        for pn, pt in fn.params:
            self.locals[pn] = pt
            if pt not in ('lgraph', 'lspec'): params.append(f'({esc(pn)} : {lean_type(pt)})')
        reassigned = assigned_names(fn.node.body) & {p for p, _ in fn.params}
        if reassigned: raise Unsupported(f'{fn.lean}: parameters {sorted(reassigned)} are re-assigned')
        self.scopes = [[]]
        self.ind = 2 if fn.recursive else 1
        if fn.mutates: self.emit('let mut s := s')
        for st in fn.node.body: self.stmt(st)
        if not always_jumps(fn.node.body):
            if fn.ret != 'none': raise Unsupported(f'{fn.lean}: control may reach the end without return')
            self.emit('return s' if fn.mutates else 'return ()')
        body = '\n'.join(self.lines)
        raises = fn.recursive or fn.mutates or '←' in body or 'throw ' in body
        fn.raises = raises
        rty = 'Unit' if fn.ret == 'none' else lean_type(fn.ret)
        if fn.mutates: rty = 'TH' if fn.ret == 'none' else f'(TH × {rty})'
        if raises: rty = f'Except PyErr {rty}'
        run = 'do' if raises else 'Id.run do'
        head = f'def {fn.lean} ' + ('(fuel : Nat) ' if fn.recursive else '') + '(s : TH) ' + ' '.join(params)
        head = head.rstrip() + f' : {rty} :='
        src = f'-- {PYFILE}: {fn.cls}.{fn.pyname}\n'
        if fn.recursive:
            src += head + '\n  match fuel with\n  | 0 => throw PyErr.recursionError\n  | fuel + 1 => ' + run + '\n'
        else:
            src += head + ' ' + run + '\n'
        return src + body + '\n'

HEADER = '''/- GENERATED by translators/py2lean_langtype.py from {path} — do not edit.
   Regenerated and compared on every run of the checks; see MalVerif/Py/PreludeLangType.lean for the conventions. -/
{imports}
set_option linter.unusedVariables false
namespace MalVerif.Py.GenLangType
open MalVerif.Py MalVerif.Py.LSpec MalVerif.Py.LType

'''

def closure(modules):
    want, todo = set(), list(modules)
    while todo:
        m = todo.pop()
        if m in want: continue
        if m not in MODULES: raise Unsupported(f'unknown module {m}')
        want.add(m); todo.extend(IMPORTS[m])
    return [m for m in MODULE_ORDER if m in want]

def generate(repo, modules=None) -> dict[str, str]:
    order = closure(modules) if modules else MODULE_ORDER
    fns, by_method = collect(repo, order)
    texts = {}
    seq = analyse(fns)
    # the write sets (which list attributes a function appends to), callees first
    for f in seq:
        for n in ast.walk(f.node):
            if isinstance(n, ast.Call) and isinstance(n.func, ast.Attribute) and n.func.attr in MUTATORS \
                    and isinstance(n.func.value, ast.Attribute):
                f.writes.add(n.func.value.attr)
        for c in f.calls: f.writes |= fns[c].writes
    for f in seq:
        texts[f.lean] = Tr(f, fns, by_method).translate()
    out = {}
    for mod in order:
        imports = 'import MalVerif.Py.PreludeLangType\n' + ''.join(f'import MalVerif.Py.GenLang.{m}\n' for m in LANG_IMPORTS[mod]) \
            + ''.join(f'import MalVerif.Py.GenLangType.{m}\n' for m in IMPORTS[mod])
        txt = HEADER.format(path=PYFILE, imports=imports.rstrip())
        for cls, name in MODULES[mod]:
            txt += texts[by_method[(CLASS_TYPE[cls], name)].lean] + '\n'
        out[mod] = txt + 'end MalVerif.Py.GenLangType\n'
    return out

def main(argv):
    repo = argv[1]
    try:
        out = generate(repo)
    except Unsupported as e:
        print(f'UNSUPPORTED: {e}')
        return 3
    if argv[2] == '--check':
        bad = [m for m, t in out.items() if not os.path.exists(os.path.join(argv[3], m + '.lean'))
               or open(os.path.join(argv[3], m + '.lean'), encoding='utf-8').read() != t]
        print('changed: ' + ' '.join(bad) if bad else 'unchanged')
        return 1 if bad else 0
    os.makedirs(argv[2], exist_ok=True)
    for m, t in out.items():
        with open(os.path.join(argv[2], m + '.lean'), 'w', encoding='utf-8') as fh: fh.write(t)
    return 0

if __name__ == '__main__':
    sys.exit(main(sys.argv))
