#!/usr/bin/env python3
"""py2lean_neo4j — translate maltoolbox/ingestors/neo4j.py to Lean 4 (domain `neo4j`, property C19).

    py2lean_neo4j.py <repo> <outdir>      writes <outdir>/<Module>.lean for every entry of MODULES
    py2lean_neo4j.py <repo> --check <dir> exit 0 iff regenerated text == files in <dir>

Same discipline as translators/py2lean.py: syntax directed and thin.  One Python statement becomes one `do`
statement (a constructor call that allocates an object: the allocation and the use of the new reference), an
attribute read a field read of the object's record in a heap, `raise` a `throw`; everything that is not recognised
raises `Unsupported`.  Dropped (and only that): docstrings, calls on `logger`, exception messages.

Three functions, three worlds:
  ingest_model(model, …)          reads the instance-model heap `s : PyM.H` (conventions of PreludeModel.lean; the
                                  typing tables ATTRS / PRESENCE of translators/py2lean_model.py are reused), writes
                                  the py2neo world `w : W`
  ingest_attack_graph(graph, …)   reads the attack-graph heap `s : Py.H` (Prelude.lean; ATTRS of translators/
                                  py2lean.py), calls the generated `node_to_dict` / `node_full_name`, writes `w`
  get_model(…, lang_graph, lang_classes_factory)
                                  reads `w`, builds a model heap `s` by calling the *generated* `model_*` functions
                                  (their Lean signatures are read off the regenerated GenModel text); what it calls
                                  on `lang_graph` / `lang_classes_factory` are fields of the parameter `env : NeoEnv`
The py2neo boundary (`Graph`, `Node`, `Relationship`, `Subgraph`, `begin` / `create` / `commit`, `run(q).data()`)
is MalVerif/Py/PreludeNeo4j.lean (trusted).

Refused, among others: a `for` over a heap list in a function that writes that heap; a `for` over a local list whose
body appends to / assigns that local; re-typing a local outside the block that declared it; keyword arguments other
than those of the known constructors / translated methods; conditional expressions whose branches have effects.
"""
from __future__ import annotations
import ast, os, re, sys
sys.path.insert(0, os.path.dirname(os.path.abspath(__file__)))
import py2lean as P
import py2lean_model as PM

Unsupported = P.Unsupported

SRC = 'maltoolbox/ingestors/neo4j.py'
# module -> (function, domain): 'M' = instance-model heap and PyM.PyErr, 'G' = attack-graph heap and Py.PyErr
MODULES = {'IngestModel': ('ingest_model', 'M'), 'IngestGraph': ('ingest_attack_graph', 'G'), 'GetModel': ('get_model', 'M')}
MODULE_ORDER = ['IngestModel', 'IngestGraph', 'GetModel']

TIE = {
    'order': 60,
    'gen_dir': 'MalVerif/Py/GenNeo4j',
    'gen_modules': MODULE_ORDER,
    'chain': ['MalVerif.Py.AbsNeo4j', 'MalVerif.Py.TieNeo4jModel', 'MalVerif.Py.TieNeo4jGraph',
              'MalVerif.Py.TieNeo4jGet', 'MalVerif.Py.TieNeo4jGetPair', 'MalVerif.Py.TieNeo4jGetFull',
              'MalVerif.Py.TieNeo4jStore', 'MalVerif.PropsGen.C19'],
    'needs': {'C19': ['MalVerif.Py.TieNeo4jModel', 'MalVerif.Py.TieNeo4jGraph', 'MalVerif.Py.TieNeo4jGet',
                      'MalVerif.Py.TieNeo4jGetPair', 'MalVerif.Py.TieNeo4jGetFull', 'MalVerif.Py.TieNeo4jStore',
                      'MalVerif.PropsGen.C19']},
    'sources': {'C19': 'ingestors/neo4j.py: ingest_model, ingest_attack_graph, get_model (py2neo Graph / Node / '
                       'Relationship / Subgraph / transactions / the two Cypher queries are the recording database of '
                       'PreludeNeo4j.lean; lang_graph.get_association_by_fields_and_assets, lang_classes_factory.'
                       'get_association_by_signature and the generated classes are parameters: NeoEnv; get_model calls '
                       'the translated Model.add_asset, add_attacker, add_association, get_asset_by_id, '
                       'get_attacker_by_id, association_exists_between_assets)'},
}

# ------------------------------------------------------------------ typing
# unannotated parameters are typed by their name (the objects are dynamically typed; configuration, trusted)
PARAM_BY_NAME = {'model': 'model', 'graph': 'agraph'}
PARAM_BY_ANN = {'str': 'str', 'bool': 'bool', 'int': 'int', 'LanguageGraph': 'lg', 'LanguageClassesFactory': 'lcf'}
OBJ = {'asset', 'assoc', 'tatt', 'ep'}               # references into the stores of PyM.H
LG_ATTRS = {'lgassoc': {'name': 'str', 'left_field': 'lgfield', 'right_field': 'lgfield'},
            'lgfield': {'fieldname': 'str', 'asset': 'lgasset'}, 'lgasset': {'name': 'str'}}
EXC = {'M': dict(PM.EXC), 'G': dict(P.EXC)}
KEYWORDS = P.LEAN_KEYWORDS | {'w', 'env', 'g_'}
# methods of other translated classes that the attack-graph side calls: (lean name, result type, raises, property)
G_METHODS = {('gnode', 'to_dict'): ('node_to_dict', ('dict', 'str', 'atom'), True, False),
             ('gnode', 'full_name'): ('node_full_name', 'str', False, True)}

def esc(n): return f'{n}_' if n in KEYWORDS else n

def lean_type(t):
    simple = {'asset': 'ARef', 'assoc': 'LRef', 'tatt': 'TRef', 'ep': 'ERef', 'floc': 'FieldLoc', 'bool': 'Bool',
              'int': 'Int', 'str': 'String', 'gnode': 'NRef', 'gatt': 'ARef', 'nnode': 'NodeRef', 'nrel': 'NeoRel',
              'nsub': 'NeoSubgraph', 'ngraph': 'NeoGraph', 'ntx': 'NeoTx', 'row': 'Row', 'cell': 'Cell',
              'atom': 'PyAtom', 'lgassoc': 'LgAssocInfo', 'lgfield': 'LgFieldInfo', 'lgasset': 'LgAssetInfo',
              'float': 'PyFloat', 'dictS': 'PyDictS'}
    if isinstance(t, str) and t in simple: return simple[t]
    if isinstance(t, tuple) and '?' not in t:
        if t[0] == 'tuple': return '(' + ' × '.join(lean_type(x) for x in t[1:]) + ')'
        if t[0] == 'opt': return f'(Option {lean_type(t[1])})'
        if t[0] == 'list': return f'(List {lean_type(t[1])})'
        if t[0] == 'dict': return f'(List ({lean_type(t[1])} × {lean_type(t[2])}))'
    raise Unsupported(f'type {t}')

def lean_str(v: str) -> str:
    out = []
    for ch in v:
        if ch == '"': out.append('\\"')
        elif ch == '\\': out.append('\\\\')
        elif ch == '\n': out.append('\\n')
        elif ord(ch) < 32 or ord(ch) > 126: raise Unsupported('non-ASCII string literal')
        else: out.append(ch)
    return '"' + ''.join(out) + '"'

def unknown(t): return t == '?' or (isinstance(t, tuple) and any(unknown(x) for x in t[1:]))

def model_signatures(repo):
    """Lean signatures of the generated `model_*` functions, read off the regenerated GenModel text, and the
    Python parameter lists (names, defaults) from model.py"""
    sigs = {}
    gen = PM.generate(repo)
    tree = ast.parse(open(os.path.join(repo, PM.SRC), encoding='utf-8').read())
    pydefs = {}
    for c in tree.body:
        if isinstance(c, ast.ClassDef) and c.name == 'Model':
            for n in c.body:
                if isinstance(n, ast.FunctionDef): pydefs[n.name] = n
    for text in gen.values():
        for m in re.finditer(r'^def model_(\w+) \(s : H\) \(env : ModelEnv\)((?: \([^()]*(?:\([^()]*\)[^()]*)*\))*) : (.*) :=', text, re.M):
            name, params, rty = m.group(1), m.group(2), m.group(3)
            if name not in pydefs: continue
            node = pydefs[name]
            args = node.args.args[1:]
            nd = len(node.args.defaults)
            defaults = dict(zip([a.arg for a in args[len(args) - nd:]], node.args.defaults)) if nd else {}
            ptypes = []
            for a in args:
                ptypes.append(PM.ann_type(a.annotation, pname=a.arg))
            raises = rty.startswith('Except PyErr ')
            core = rty[len('Except PyErr '):] if raises else rty
            mutates = core == 'H'
            ret = 'none' if mutates or core == 'Unit' else (PM.ann_type(node.returns, fname=name) if node.returns is not None else PM.RET.get(name, 'none'))
            sigs[name] = dict(lean='model_' + name, params=[(a.arg, t) for a, t in zip(args, ptypes)], defaults=defaults,
                              raises=raises, mutates=mutates, ret=ret)
    return sigs

# ------------------------------------------------------------------ translation of one function
class Tr:
    def __init__(self, fnode: ast.FunctionDef, domain: str, sigs, hints):
        self.fn, self.dom, self.sigs, self.hints = fnode, domain, sigs, hints
        self.lines: list[str] = []
        self.scopes: list[dict] = [{}]           # python name -> [lean name, type, declaration key]
        self.tmp = 0
        self.decl_count: dict[str, int] = {}
        self.s_kind = None                        # 'model' / 'agraph': which heap `s` is
        self.s_mut = False                        # get_model: `s` is the model under construction
        self.w_mut = False
        self.has_env = False
        self.loop_locals: list[set] = []          # local lists being iterated (must not be mutated)
        self.ns = {'M': 'PyM.', 'G': 'Py.'}[domain]   # the dictionary functions of the domain's prelude

    # ---- helpers
    def fresh(self, base):
        self.tmp += 1
        return f'{base}_{self.tmp}'
    def emit(self, ind, s): self.lines.append('  ' * ind + s)
    def lookup(self, name):
        for sc in reversed(self.scopes):
            if name in sc: return sc[name]
        return None
    def exc(self, e):
        if isinstance(e, ast.Call): e = e.func
        if isinstance(e, ast.Name) and e.id in EXC[self.dom]: return EXC[self.dom][e.id]
        raise Unsupported(f'exception {ast.unparse(e)}')
    def declare(self, ind, name, t, value):
        """`name = value` for a new (or re-typed) local"""
        k = self.decl_count.get(name, 0); self.decl_count[name] = k + 1
        key = f'{self.fn.name}:{name}:{k}'
        if unknown(t):
            t = self.hints.get(key, t)
        lean = esc(name) if k == 0 else f'{esc(name)}_{k + 1}'
        self.scopes[-1][name] = [lean, t, key]
        if unknown(t):
            self.emit(ind, f'let mut {lean} := {value}  -- type {t} not yet known')
        else:
            self.emit(ind, f'let mut {lean} : {lean_type(t)} := {value}')
    def refine(self, name, t):
        ent = self.lookup(name)
        ent[1] = t
        self.hints[ent[2]] = t

    def coerce(self, x, t, want):
        if t == want: return x
        if isinstance(want, tuple) and want[0] == 'opt':
            if t == 'none': return 'none'
            if t == want[1] or want[1] == '?': return f'(some {x})'
        if want == 'atom' and t == 'str': return f'(PyAtom.str {x})'
        if isinstance(want, tuple) and isinstance(t, tuple) and want[0] == t[0] and unknown(t) and want[0] in ('list', 'dict'):
            return x
        raise Unsupported(f'value of type {t} where {want} is expected')

    def truthy(self, x, t):
        if t == 'bool': return x
        if isinstance(t, tuple) and t[0] == 'opt' and (t[1] in OBJ or t[1] in LG_ATTRS): return f'({x}).isSome'
        if t == ('opt', 'str'): return f'(truthyOptStr {x})'
        raise Unsupported(f'truthiness of {t}')

    # ---- expressions
    def expr(self, e):
        if isinstance(e, ast.Constant):
            v = e.value
            if v is None: return 'none', 'none'
            if v is True: return 'true', 'bool'
            if v is False: return 'false', 'bool'
            if isinstance(v, str): return lean_str(v), 'str'
            if isinstance(v, int): return f'({v} : Int)', 'int'
            raise Unsupported(f'constant {v!r}')
        if isinstance(e, ast.Name):
            ent = self.lookup(e.id)
            if ent is None: raise Unsupported(f'unknown name {e.id}')
            return ent[0], ent[1]
        if isinstance(e, ast.List):
            if not e.elts: return '[]', ('list', '?')
            xs = [self.expr(x) for x in e.elts]
            if len({t for _, t in xs}) != 1: raise Unsupported('heterogeneous list literal')
            return '[' + ', '.join(x for x, _ in xs) + ']', ('list', xs[0][1])
        if isinstance(e, ast.Dict):
            if e.keys: raise Unsupported('non-empty dict literal')
            return '[]', ('dict', '?', '?')
        if isinstance(e, ast.Attribute): return self.attribute(e)
        if isinstance(e, ast.Subscript): return self.subscript(e)
        if isinstance(e, ast.Call): return self.call(e)
        if isinstance(e, ast.Compare): return self.compare(e)
        if isinstance(e, ast.UnaryOp) and isinstance(e.op, ast.Not):
            x, t = self.expr(e.operand)
            return f'!({self.truthy(x, t)})', 'bool'
        if isinstance(e, ast.BoolOp):
            xs = [self.truthy(*self.expr(v)) for v in e.values]
            if any('←' in x for x in xs[1:]): raise Unsupported('effect under and / or')
            return '(' + (' && ' if isinstance(e.op, ast.And) else ' || ').join(xs) + ')', 'bool'
        if isinstance(e, ast.IfExp): return self.ifexp(e)
        raise Unsupported(f'expression {ast.unparse(e)}')

    def ifexp(self, e):
        c, ct = self.expr(e.test)
        c = self.truthy(c, ct)
        if '←' in c: raise Unsupported('effect in the test of a conditional expression')
        a, at = self.expr(e.body); b, bt = self.expr(e.orelse)
        t = at
        if at != bt:
            if 'atom' in (at, bt) and {at, bt} <= {'atom', 'str'}: t = 'atom'
            else: raise Unsupported(f'conditional expression of types {at} / {bt}')
        a, b = self.coerce(a, at, t), self.coerce(b, bt, t)
        def lazy(x):
            # the branch as an `Except` value: `(← X)` is X, a pure term is `pure term`; nothing else may have effects
            if x.startswith('(← ') and x.endswith(')') and '←' not in x[3:-1]: return x[3:-1]
            if '←' in x: raise Unsupported('nested effects in a branch of a conditional expression')
            return f'pure {x}'
        if '←' not in a and '←' not in b: return f'(if {c} then {a} else {b})', t
        return f'(← (if {c} then {lazy(a)} else {lazy(b)}))', t

    def attribute(self, e):
        base, bt = self.expr(e.value)
        a = e.attr
        if bt == 'model':
            if a in PM.ATTRS['graph']: return f's.{a}', PM.ATTRS['graph'][a]
        elif bt in PM.STORE and a in PM.ATTRS.get(bt, {}):
            raw = f'(s.{PM.STORE[bt]} {base}).{a}'
            if (bt, a) in PM.PRESENCE: return f'({PM.PRESENCE[(bt, a)]} {raw})', PM.ATTRS[bt][a][1]
            return raw, PM.ATTRS[bt][a]
        elif bt == 'agraph':
            t = P.ATTRS['graph'].get(a)
            if t == ('list', 'node'): return f's.{a}', ('list', 'gnode')
        elif bt == 'gnode':
            if (bt, a) in G_METHODS and G_METHODS[(bt, a)][3]:
                lean, t, raises, _ = G_METHODS[(bt, a)]
                return (f'(← {lean} s {base})' if raises else f'({lean} s {base})'), t
            t = P.ATTRS['node'].get(a)
            conv = {'str': 'str', 'bool': 'bool', ('opt', 'int'): ('opt', 'int'), ('list', 'node'): ('list', 'gnode'),
                    ('list', 'att'): ('list', 'gatt'), ('opt', 'float'): ('opt', 'float'), ('list', 'str'): ('list', 'str')}
            if t in conv: return f'(s.n {base}).{a}', conv[t]
        elif bt in LG_ATTRS and a in LG_ATTRS[bt]:
            return f'{base}.{a}', LG_ATTRS[bt][a]
        raise Unsupported(f'attribute {a} of {bt}')

    def subscript(self, e):
        base, bt = self.expr(e.value)
        if isinstance(bt, tuple) and bt[0] == 'dict':
            k, kt = self.expr(e.slice)
            if unknown(bt): raise Unsupported('read of a dictionary of unknown type')
            return f'(← {self.ns}dictGetE {base} {self.coerce(k, kt, bt[1])})', bt[2]
        if bt == 'row':
            k, kt = self.expr(e.slice)
            if kt != 'str': raise Unsupported('row key')
            return f'(← rowGet {base} {k})', 'cell'
        if isinstance(bt, tuple) and bt[0] == 'list' and isinstance(e.slice, ast.Constant) and \
                type(e.slice.value) is int and e.slice.value >= 0:
            return f'(← pyIndex {base} {e.slice.value})', bt[1]
        raise Unsupported(f'subscript on {bt}')

    def compare(self, e):
        if len(e.ops) != 1: raise Unsupported('chained comparison')
        op, rhs = e.ops[0], e.comparators[0]
        l, lt = self.expr(e.left); r, rt = self.expr(rhs)
        if isinstance(op, (ast.Is, ast.IsNot)) and rt == 'none':
            if not (isinstance(lt, tuple) and lt[0] == 'opt'): raise Unsupported(f'`is None` on {lt}')
            return (f'({l}).isNone' if isinstance(op, ast.Is) else f'({l}).isSome'), 'bool'
        if isinstance(op, (ast.Eq, ast.NotEq)) and lt == rt and lt in ('str', 'int', 'bool'):
            return (f'({l} == {r})' if isinstance(op, ast.Eq) else f'({l} != {r})'), 'bool'
        if isinstance(op, (ast.In, ast.NotIn)) and isinstance(rt, tuple) and rt[0] == 'dict' and lt == rt[1] and self.dom == 'G':
            return (f'({self.ns}dictIn {r} {l})' if isinstance(op, ast.In) else f'!({self.ns}dictIn {r} {l})'), 'bool'
        raise Unsupported(f'comparison {ast.unparse(e)} ({lt}, {rt})')

    def args_of(self, e, names, defaults=None):
        """positional + keyword arguments mapped onto the parameter names"""
        defaults = defaults or {}
        got = {}
        if len(e.args) > len(names): raise Unsupported(f'too many arguments in {ast.unparse(e)}')
        for n, a in zip(names, e.args): got[n] = a
        for k in e.keywords:
            if k.arg is None or k.arg not in names or k.arg in got: raise Unsupported(f'keyword argument in {ast.unparse(e)}')
            got[k.arg] = k.value
        out = []
        for n in names:
            if n in got: out.append(got[n])
            elif n in defaults: out.append(defaults[n])
            else: raise Unsupported(f'missing argument {n} in {ast.unparse(e)}')
        return out

    def call(self, e):
        f = e.func
        if isinstance(f, ast.Name):
            n = f.id
            if n in ('str', 'int', 'dict', 'list') and len(e.args) == 1 and not e.keywords:
                a0 = e.args[0]
                if n == 'list' and isinstance(a0, ast.Call) and isinstance(a0.func, ast.Attribute) and \
                        a0.func.attr == 'values' and not a0.args and not a0.keywords:
                    d, dt = self.expr(a0.func.value)
                    if isinstance(dt, tuple) and dt[0] == 'dict' and not unknown(dt): return f'(dictValues {d})', ('list', dt[2])
                    raise Unsupported(f'.values() of {dt}')
                x, t = self.expr(a0)
                if n == 'str':
                    fnm = {'int': 'strOfInt', 'str': 'strOfStr', 'bool': 'strOfBool', 'atom': 'pyStrAtom'}.get(t)
                    if fnm: return f'({fnm} {x})', 'str'
                if n == 'int' and t == 'str' and self.dom == 'M': return f'(← pyIntOfStr {x})', 'int'
                if n == 'dict' and t == 'cell': return f'(cellDict {x})', ('dict', 'str', 'str')
                if n == 'list' and isinstance(t, tuple) and t[0] == 'list': return x, t
                raise Unsupported(f'{n}() of {t}')
            if n == 'Graph' and not e.args:
                a = self.args_of(e, ['uri', 'user', 'password', 'name'])
                xs = [self.coerce(*self.expr(x), 'str') for x in a]
                return f'{{ uri := {xs[0]}, user := {xs[1]}, password := {xs[2]}, name := {xs[3]} }}', 'ngraph'
            if n == 'Relationship' and not e.keywords and len(e.args) in (2, 3):
                xs = [self.expr(x) for x in e.args]
                if [t for _, t in xs] == ['nnode', 'nnode']: return f'(neoRel2 {xs[0][0]} {xs[1][0]})', 'nrel'
                if [t for _, t in xs] == ['nnode', 'str', 'nnode']: return f'(neoRel3 {xs[0][0]} {xs[1][0]} {xs[2][0]})', 'nrel'
                raise Unsupported('Relationship argument types')
            if n == 'Subgraph' and not e.keywords and len(e.args) == 2:
                a, at = self.expr(e.args[0]); b, bt = self.expr(e.args[1])
                if at == ('list', 'nnode') and bt == ('list', 'nrel'): return f'(neoSubgraph {a} {b})', 'nsub'
                raise Unsupported(f'Subgraph({at}, {bt})')
            if n == 'Model' and len(e.args) == 2 and not e.keywords:
                x, t = self.expr(e.args[0]); _, ft = self.expr(e.args[1])
                if t != 'str' or ft != 'lcf': raise Unsupported('Model(...) arguments')
                return f'(modelInit {x})', 'model'
            if n == 'hasattr' and len(e.args) == 2 and self.is_ns(e.args[0]):
                x, t = self.expr(e.args[1])
                if t != 'str': raise Unsupported('hasattr name')
                return f'(env.ns_has {x})', 'bool'
            if n == 'getattr' and len(e.args) == 2 and not self.is_ns(e.args[0]):
                x, t = self.expr(e.args[0]); k, kt = self.expr(e.args[1])
                if t != 'assoc' or kt != 'str': raise Unsupported(f'getattr({t}, {kt})')
                return f'(← pyGetattr s {x} {k})', 'floc'
            raise Unsupported(f'call of {n}')
        if isinstance(f, ast.Attribute):
            m = f.attr
            # assoc._properties.keys()
            if m == 'keys' and not e.args and not e.keywords and isinstance(f.value, ast.Attribute) and f.value.attr == '_properties':
                x, t = self.expr(f.value.value)
                if t != 'assoc': raise Unsupported(f'_properties of {t}')
                return f'(assocFieldNames (s.l {x}))', ('tuple', 'str', 'str')
            # g.run(q).data()
            if m == 'data' and not e.args and not e.keywords and isinstance(f.value, ast.Call) and \
                    isinstance(f.value.func, ast.Attribute) and f.value.func.attr == 'run' and len(f.value.args) == 1 \
                    and not f.value.keywords:
                g, gt = self.expr(f.value.func.value); q, qt = self.expr(f.value.args[0])
                if gt != 'ngraph' or qt != 'str' or self.dom != 'M': raise Unsupported('run(...).data()')
                return f'(← w.runData {g} {q})', ('list', 'row')
            recv, rt = self.expr(f.value)
            if rt == 'ngraph' and m == 'begin' and not e.args and not e.keywords: return f'(neoBegin {recv})', 'ntx'
            if rt == 'cell' and m == 'types' and not e.args and not e.keywords: return f'(cellTypes {recv})', ('list', 'str')
            if (rt, m) in G_METHODS and not G_METHODS[(rt, m)][3] and not e.args and not e.keywords:
                lean, t, raises, _ = G_METHODS[(rt, m)]
                return (f'(← {lean} s {recv})' if raises else f'({lean} s {recv})'), t
            if rt == 'lg' and m == 'get_association_by_fields_and_assets' and len(e.args) == 4 and not e.keywords:
                xs = [self.coerce(*self.expr(a), 'str') for a in e.args]
                return f'(← env.get_association_by_fields_and_assets {" ".join(xs)})', ('opt', 'lgassoc')
            if rt == 'lcf' and m == 'get_association_by_signature' and len(e.args) == 3 and not e.keywords:
                xs = [self.coerce(*self.expr(a), 'str') for a in e.args]
                return f'(← env.get_association_by_signature {" ".join(xs)})', ('opt', 'str')
            if rt == 'model' and m in self.sigs:
                sg = self.sigs[m]
                if sg['mutates']: raise Unsupported(f'{m} used as an expression')
                return self.model_call(sg, e), sg['ret']
            raise Unsupported(f'method {m} of {rt}')
        raise Unsupported(f'call {ast.unparse(e)}')

    def model_call(self, sg, e):
        args = self.args_of(e, [p for p, _ in sg['params']], sg['defaults'])
        xs = [self.coerce(*self.expr(a), t) for a, (_, t) in zip(args, sg['params'])]
        c = f'{sg["lean"]} s env.menv ' + ' '.join(xs)
        return f'(← {c.rstrip()})' if sg['raises'] else f'({c.rstrip()})'

    def is_ns(self, e):
        if isinstance(e, ast.Attribute) and e.attr == 'ns':
            _, t = self.expr(e.value)
            return t == 'lcf'
        return False

    # ---- statements
    def body(self, ind, stmts):
        i = 0
        while i < len(stmts):
            self.stmt(ind, stmts[i], stmts[i + 1:])
            i += 1

    def block(self, ind, stmts):
        self.scopes.append({})
        n0 = len(self.lines)
        self.body(ind, stmts)
        if len(self.lines) == n0: self.emit(ind, 'pure ()')
        self.scopes.pop()

    @staticmethod
    def is_droppable(st):
        return (isinstance(st, ast.Expr) and (P.is_logger_call(st.value) or isinstance(st.value, ast.Constant))) \
            or isinstance(st, ast.Pass)

    def terminator(self, stmts):
        """[logging…, (assignment of the message…), raise / continue] -> the Lean terminator, or None"""
        if not stmts: return None
        *pre, last = stmts
        for st in pre:
            if self.is_droppable(st): continue
            # msg = '…' (only used by logging / the exception)
            if isinstance(st, ast.Assign) and len(st.targets) == 1 and isinstance(st.targets[0], ast.Name) and \
                    st.targets[0].id == 'msg' and isinstance(st.value, ast.Constant) and isinstance(st.value.value, str):
                continue
            return None
        if isinstance(last, ast.Raise) and last.exc is not None: return f'throw {self.exc(last.exc)}'
        if isinstance(last, ast.Continue): return 'continue'
        return None

    def assign_name(self, ind, name, x, t):
        ent = self.lookup(name)
        for ls in self.loop_locals:
            if name in ls: raise Unsupported(f'assignment to {name}, a list that is being iterated')
        if ent is None:
            self.declare(ind, name, t, x); return
        lean, cur, _ = ent
        if unknown(cur) and not unknown(t) and self.compatible(cur, t):
            self.refine(name, t if not (isinstance(cur, tuple) and cur[0] == 'opt') else ('opt', t) if t != 'none' and not (isinstance(t, tuple) and t[0] == 'opt') else t)
            cur = self.lookup(name)[1]
        try:
            v = self.coerce(x, t, cur)
        except Unsupported:
            if name in self.scopes[-1]:
                self.declare(ind, name, t, x); return          # re-typed in the block that declared it
            raise Unsupported(f'local {name} changes its type from {cur} to {t} outside the block that declared it')
        self.emit(ind, f'{lean} := {v}')

    @staticmethod
    def compatible(cur, t):
        if cur == '?': return True
        if isinstance(cur, tuple) and cur[0] == 'opt': return t == 'none' or cur[1] == '?' or cur[1] == t or t == cur
        if isinstance(cur, tuple) and isinstance(t, tuple) and cur[0] == t[0]: return True
        return False

    def hoist(self, ind, st, rest):
        """locals first assigned inside the branches of `st` and read after it: declared in front of it with the
        value `default` (Python: unbound until assigned)"""
        assigned = []
        for n in ast.walk(st):
            if isinstance(n, ast.Assign):
                for tg in n.targets:
                    for nm in ([tg] if isinstance(tg, ast.Name) else tg.elts if isinstance(tg, ast.Tuple) else []):
                        if isinstance(nm, ast.Name) and nm.id not in assigned: assigned.append(nm.id)
        used = {n.id for r in rest for n in ast.walk(r) if isinstance(n, ast.Name) and isinstance(n.ctx, ast.Load)}
        for name in assigned:
            if self.lookup(name) is None and name in used:
                k = self.decl_count.get(name, 0)
                key = f'{self.fn.name}:{name}:{k}'
                t = self.hints.get(key, '?')
                self.declare(ind, name, t, 'default' if not unknown(t) else 'default')

    def stmt(self, ind, st, rest=()):
        if self.is_droppable(st): return
        if isinstance(st, ast.Assign): return self.assign(ind, st)
        if isinstance(st, ast.Expr) and isinstance(st.value, ast.Call): return self.call_stmt(ind, st.value)
        if isinstance(st, ast.If): return self.if_stmt(ind, st, rest)
        if isinstance(st, ast.For): return self.for_stmt(ind, st)
        if isinstance(st, ast.Continue): self.emit(ind, 'continue'); return
        if isinstance(st, ast.Raise) and st.exc is not None: self.emit(ind, f'throw {self.exc(st.exc)}'); return
        if isinstance(st, ast.Return):
            if st.value is None: raise Unsupported('bare return')
            x, t = self.expr(st.value)
            if t == 'model' and self.s_mut: self.emit(ind, 'return s'); return
            raise Unsupported(f'return of {t}')
        raise Unsupported(f'statement {type(st).__name__}: {ast.unparse(st)[:60]}')

    def assign(self, ind, st):
        if len(st.targets) != 1: raise Unsupported('chained assignment')
        tg, v = st.targets[0], st.value
        if isinstance(tg, ast.Name) and tg.id == 'msg' and isinstance(v, ast.Constant) and isinstance(v.value, str):
            return                                                    # exception / log message
        if isinstance(tg, ast.Tuple):
            if not all(isinstance(x, ast.Name) for x in tg.elts): raise Unsupported('tuple target')
            if isinstance(v, ast.Tuple) and len(v.elts) == len(tg.elts):
                # a, b = x, y  (all right-hand sides are evaluated first)
                xs = [self.expr(x) for x in v.elts]
                tmps = []
                for (x, t) in xs:
                    tmp = self.fresh('t'); self.emit(ind, f'let {tmp} := {x}'); tmps.append((tmp, t))
                for nm, (tmp, t) in zip(tg.elts, tmps): self.assign_name(ind, nm.id, tmp, t)
                return
            x, t = self.expr(v)
            if not (isinstance(t, tuple) and t[0] == 'tuple' and len(t) - 1 == len(tg.elts)): raise Unsupported(f'unpacking of {t}')
            names = []
            for nm, et in zip(tg.elts, t[1:]):
                if self.lookup(nm.id) is not None: raise Unsupported(f'unpacking into the existing local {nm.id}')
                self.scopes[-1][nm.id] = [esc(nm.id), et, None]; names.append(esc(nm.id))
            self.emit(ind, f'let ({", ".join(names)}) := {x}')
            return
        if isinstance(tg, ast.Subscript):
            # d[k] = v on a local dictionary
            if not isinstance(tg.value, ast.Name): raise Unsupported('subscript assignment target')
            d, dt = self.expr(tg.value)
            if not (isinstance(dt, tuple) and dt[0] == 'dict'): raise Unsupported(f'item assignment on {dt}')
            x, t = self.value_with_alloc(ind, v)
            k, kt = self.expr(tg.slice)
            if unknown(dt):
                dt = ('dict', kt, t); self.refine(tg.value.id, dt)
            self.emit(ind, f'{d} := {self.ns}dictSet {d} {self.coerce(k, kt, dt[1])} {self.coerce(x, t, dt[2])}')
            return
        if isinstance(tg, ast.Attribute):
            base, bt = self.expr(tg.value)
            if bt == 'tatt' and tg.attr == 'entry_points' and self.s_mut:
                x, t = self.expr(v)
                if t != ('list', '?') and t != ('list', 'ep'): raise Unsupported('entry_points value')
                self.emit(ind, f's := s.setT {base} {{ s.t {base} with entry_points := {x} }}')
                return
            raise Unsupported(f'assignment to attribute {tg.attr} of {bt}')
        if isinstance(tg, ast.Name):
            x, t = self.value_with_alloc(ind, v)
            if t == 'model':
                if self.s_kind is not None: raise Unsupported('a second model object')
                self.s_kind, self.s_mut = 'model', True
                self.scopes[-1][tg.id] = ['s', 'model', None]
                self.emit(ind, f'let mut s : H := {x}')
                return
            if t in ('ngraph',) and self.lookup(tg.id) is None:
                self.scopes[-1][tg.id] = [esc(tg.id), t, None]
                self.emit(ind, f'let {esc(tg.id)} : {lean_type(t)} := {x}')
                return
            if t == 'none' and self.lookup(tg.id) is None: t = ('opt', '?')       # x = None: an Optional
            self.assign_name(ind, tg.id, x, t)
            return
        raise Unsupported(f'assignment target {ast.unparse(tg)}')

    def value_with_alloc(self, ind, v):
        """an expression that may be a constructor call allocating an object: emits the allocation, returns the
        reference"""
        if isinstance(v, ast.Call) and isinstance(v.func, ast.Name) and v.func.id == 'Node':
            if len(v.args) != 1: raise Unsupported('Node(...) with other than one label')
            l, lt = self.expr(v.args[0])
            if lt == 'atom' and self.dom == 'G': l = f'(← neoLabel {l})'
            elif lt != 'str': raise Unsupported(f'label of type {lt}')
            props = []
            for k in v.keywords:
                if k.arg is None: raise Unsupported('**kwargs')
                x, t = self.expr(k.value)
                if t == 'atom' and self.dom == 'G': x = f'(← neoPropStr {x})'
                elif t != 'str': raise Unsupported(f'property {k.arg} of type {t}')
                props.append(f'({lean_str(k.arg)}, {x})')
            if not self.w_mut: raise Unsupported('Node(...) in a function that does not own the py2neo world')
            r = self.fresh('r')
            self.emit(ind, f'let {r} := w.allocNode {{ labels := [{l}], props := [{", ".join(props)}] }}')
            self.emit(ind, f'w := {r}.1')
            return f'{r}.2', 'nnode'
        if isinstance(v, ast.Call) and isinstance(v.func, ast.Name) and v.func.id == 'AttackerAttachment':
            if v.args or v.keywords or not self.s_mut: raise Unsupported('AttackerAttachment(...) with arguments')
            r = self.fresh('r')
            self.emit(ind, f'let {r} := allocT s {{}}'); self.emit(ind, f's := {r}.1')
            return f'{r}.2', 'tatt'
        if isinstance(v, ast.Call) and isinstance(v.func, ast.Call) and isinstance(v.func.func, ast.Name) and \
                v.func.func.id == 'getattr' and len(v.func.args) == 2 and self.is_ns(v.func.args[0]) and not v.func.keywords:
            # getattr(lang_classes_factory.ns, C)(…): a constructor of a generated class.  The classes are dynamically
            # typed: a call with the keyword `name` makes an asset, a call without arguments an association
            if not self.s_mut: raise Unsupported('object construction without a model under construction')
            c, ct = self.expr(v.func.args[1])
            if ct != 'str': raise Unsupported('class name')
            r = self.fresh('r')
            if not v.args and [k.arg for k in v.keywords] == ['name']:
                n, nt = self.expr(v.keywords[0].value)
                if nt != 'str': raise Unsupported('name of the new asset')
                self.emit(ind, f'let {r} := allocA s (← env.ns_new_asset {c} {n})'); self.emit(ind, f's := {r}.1')
                return f'{r}.2', 'asset'
            if not v.args and not v.keywords:
                self.emit(ind, f'let {r} := allocL s (← env.ns_new_assoc {c})'); self.emit(ind, f's := {r}.1')
                return f'{r}.2', 'assoc'
            raise Unsupported('constructor call of a generated class')
        return self.expr(v)

    def call_stmt(self, ind, v):
        f = v.func
        if isinstance(f, ast.Name) and f.id == 'setattr' and len(v.args) == 3 and not v.keywords and self.s_mut:
            o, ot = self.expr(v.args[0]); k, kt = self.expr(v.args[1]); x, xt = self.expr(v.args[2])
            if (ot, kt, xt) != ('assoc', 'str', ('list', 'asset')): raise Unsupported(f'setattr({ot}, {kt}, {xt})')
            self.emit(ind, f's ← pySetattr s {o} {k} {x}')
            return
        if isinstance(f, ast.Attribute):
            m = f.attr
            # attacker.entry_points.append((asset, [step]))
            if m == 'append' and len(v.args) == 1 and not v.keywords and isinstance(v.args[0], ast.Tuple) and \
                    isinstance(f.value, ast.Attribute) and f.value.attr == 'entry_points' and self.s_mut:
                t_, tt = self.expr(f.value.value); tup = v.args[0]
                if tt != 'tatt' or len(tup.elts) != 2: raise Unsupported('append of a tuple')
                a, at = self.expr(tup.elts[0]); b, bt = self.expr(tup.elts[1])
                if at != 'asset' or bt != ('list', 'str'): raise Unsupported('entry-point tuple components')
                r = self.fresh('r')
                self.emit(ind, f'let {r} := s.allocE {{ asset := {a}, steps := {b} }}')
                self.emit(ind, f's := {r}.1')
                self.emit(ind, f's := s.setT {t_} {{ s.t {t_} with entry_points := ((s.t {t_}).entry_points ++ [{r}.2]) }}')
                return
            if m == 'append' and len(v.args) == 1 and not v.keywords and isinstance(f.value, ast.Name):
                l, lt = self.expr(f.value)
                for ls in self.loop_locals:
                    if f.value.id in ls: raise Unsupported(f'append to {f.value.id}, a list that is being iterated')
                if not (isinstance(lt, tuple) and lt[0] == 'list'): raise Unsupported(f'append on {lt}')
                x, t = self.value_with_alloc(ind, v.args[0])
                if unknown(lt): lt = ('list', t); self.refine(f.value.id, lt)
                self.emit(ind, f'{l} := {l} ++ [{self.coerce(x, t, lt[1])}]')
                return
            recv, rt = self.expr(f.value)
            if rt == 'ngraph' and m == 'delete_all' and not v.args and not v.keywords and self.w_mut:
                self.emit(ind, f'w := w.deleteAll {recv}'); return
            if rt == 'ntx' and m == 'create' and len(v.args) == 1 and not v.keywords and isinstance(f.value, ast.Name):
                x, t = self.expr(v.args[0])
                if t != 'nsub': raise Unsupported('create of a non-subgraph')
                self.emit(ind, f'{recv} := neoTxCreate {recv} {x}'); return
            if rt == 'ngraph' and m == 'commit' and len(v.args) == 1 and not v.keywords and self.w_mut:
                x, t = self.expr(v.args[0])
                if t != 'ntx': raise Unsupported('commit of a non-transaction')
                self.emit(ind, f'w := w.commit {recv} {x}'); return
            if rt == 'model' and m in self.sigs and self.s_mut:
                sg = self.sigs[m]
                if not sg['mutates']: raise Unsupported(f'result of {m} is dropped')
                c = self.model_call(sg, v)
                self.emit(ind, f's ← {c[3:-1]}' if sg['raises'] else f's := {c[1:-1]}')
                return
        raise Unsupported(f'statement {ast.unparse(v)[:70]}')

    def narrow_target(self, test):
        """`x is None` / `not x` on a local of Optional type -> (name, kind)"""
        if isinstance(test, ast.Compare) and len(test.ops) == 1 and isinstance(test.ops[0], ast.Is) and \
                isinstance(test.left, ast.Name) and isinstance(test.comparators[0], ast.Constant) and test.comparators[0].value is None:
            return test.left.id, 'none'
        if isinstance(test, ast.UnaryOp) and isinstance(test.op, ast.Not) and isinstance(test.operand, ast.Name):
            return test.operand.id, 'falsy'
        return None

    def if_stmt(self, ind, st, rest):
        # if x is None / if not x:  [logging…]  raise E / continue        ->   let some x' := x | throw E
        nt = self.narrow_target(st.test)
        if nt and not st.orelse:
            name, kind = nt
            ent = self.lookup(name)
            term = self.terminator(st.body)
            if ent and term and isinstance(ent[1], tuple) and ent[1][0] == 'opt' and not unknown(ent[1]):
                inner = ent[1][1]
                src = ent[0]
                if kind == 'falsy':
                    if inner == 'str': src = f'(truthyStr? {ent[0]})'        # None and '' are falsy
                    elif not (inner in OBJ or inner in LG_ATTRS): raise Unsupported(f'`not x` on Optional {inner}')
                k = self.decl_count.get(name, 0); self.decl_count[name] = k + 1
                lean = f'{esc(name)}_{k + 1}'
                if name not in self.scopes[-1]:
                    raise Unsupported(f'narrowing of {name} outside the block that declared it')
                self.emit(ind, f'let some {lean} := {src} | {term}')
                self.scopes[-1][name] = [lean, inner, None]
                return
        # if x is not None: body       ->   match x with | some v => body | none => pure ()
        t = st.test
        if isinstance(t, ast.Compare) and len(t.ops) == 1 and isinstance(t.ops[0], ast.IsNot) and isinstance(t.left, ast.Name) \
                and isinstance(t.comparators[0], ast.Constant) and t.comparators[0].value is None and not st.orelse:
            ent = self.lookup(t.left.id)
            if ent and isinstance(ent[1], tuple) and ent[1][0] == 'opt' and not unknown(ent[1]):
                v = self.fresh('v')
                self.emit(ind, f'match {ent[0]} with')
                self.emit(ind, f'| some {v} =>')
                self.scopes.append({t.left.id: [v, ent[1][1], None]})
                n0 = len(self.lines)
                self.body(ind + 1, st.body)
                if len(self.lines) == n0: self.emit(ind + 1, 'pure ()')
                self.scopes.pop()
                self.emit(ind, '| none =>'); self.emit(ind + 1, 'pure ()')
                return
        self.hoist(ind, st, rest)
        c, ct = self.expr(st.test)
        self.emit(ind, f'if {self.truthy(c, ct)} then')
        self.block(ind + 1, st.body)
        if st.orelse:
            if len(st.orelse) == 1 and isinstance(st.orelse[0], ast.If):
                self.emit(ind, 'else'); self.scopes.append({}); self.if_stmt(ind + 1, st.orelse[0], ()); self.scopes.pop()
            else:
                self.emit(ind, 'else'); self.block(ind + 1, st.orelse)

    def for_stmt(self, ind, st):
        if st.orelse or not isinstance(st.target, ast.Name): raise Unsupported('for shape')
        it, itt = self.expr(st.iter)
        src = st.iter
        loc = None
        if itt == 'floc':
            if self.s_mut: raise Unsupported('loop over an association field in a function that writes the model')
            it, itt = f'(s.rd {it})', ('list', 'asset')
        elif isinstance(src, ast.Attribute):
            if self.s_mut: raise Unsupported(f'loop over the live list .{src.attr} in a function that writes that heap')
        elif isinstance(src, ast.Name):
            loc = src.id
        else:
            raise Unsupported(f'loop over {ast.unparse(src)}')
        if not (isinstance(itt, tuple) and itt[0] == 'list' and not unknown(itt)): raise Unsupported(f'iteration over {itt}')
        v = st.target.id
        if self.lookup(v) is not None: raise Unsupported(f'loop variable {v} shadows a local')
        self.emit(ind, f'for {esc(v)} in {it} do')
        self.decl_count[v] = self.decl_count.get(v, 0) + 1
        self.scopes.append({v: [esc(v), itt[1], None]})
        self.loop_locals.append({loc} if loc else set())
        n0 = len(self.lines)
        self.body(ind + 1, st.body)
        if len(self.lines) == n0: self.emit(ind + 1, 'pure ()')
        self.loop_locals.pop()
        self.scopes.pop()

    # ---- the function
    def translate(self):
        fn = self.fn
        if fn.decorator_list: raise Unsupported('decorator')
        a = fn.args
        if a.vararg or a.kwarg or a.kwonlyargs or a.posonlyargs: raise Unsupported('parameter list')
        params = []
        for p in a.args:
            if p.annotation is None:
                t = PARAM_BY_NAME.get(p.arg)
            else:
                t = PARAM_BY_ANN.get(ast.unparse(p.annotation).replace(' ', ''))
            if t is None: raise Unsupported(f'parameter {p.arg}')
            if t in ('model', 'agraph'):
                if self.s_kind: raise Unsupported('two heaps')
                self.s_kind = t
                self.scopes[0][p.arg] = ['s', t, None]
            elif t in ('lg', 'lcf'):
                self.has_env = True
                self.scopes[0][p.arg] = ['env', t, None]
            else:
                self.scopes[0][p.arg] = [esc(p.arg), t, None]
                params.append(f'({esc(p.arg)} : {lean_type(t)})')
        ret = ast.unparse(fn.returns) if fn.returns is not None else 'None'
        if ret == 'None':
            self.w_mut = True; rty = 'W'
            if (self.dom == 'M') != (self.s_kind == 'model'): raise Unsupported('heap of the wrong domain')
        elif ret == 'Model' and self.s_kind is None and self.dom == 'M':
            rty = 'H'
        else:
            raise Unsupported(f'return annotation {ret}')
        if self.w_mut: self.emit(1, 'let mut w := w')
        self.scopes.append({})
        self.body(1, fn.body)
        if self.w_mut:
            if isinstance(fn.body[-1], ast.Return): raise Unsupported('return in a function without result')
            self.emit(1, 'return w')
        elif not isinstance(fn.body[-1], ast.Return): raise Unsupported('missing return')
        err = 'PyErr'
        head = f'def {fn.name} (w : W) ' + ('(s : H) ' if self.s_kind and not self.s_mut else '') + \
            ('(env : NeoEnv) ' if self.has_env else '') + ' '.join(params)
        head = head.rstrip() + f' : Except {err} {rty} := do'
        return f'-- {SRC}: {fn.name}\n' + head + '\n' + '\n'.join(self.lines) + '\n'

HEADER = '''/- GENERATED by translators/py2lean_neo4j.py from {path} — do not edit.
   Regenerated and compared on every run of the checks; see MalVerif/Py/PreludeNeo4j.lean for the conventions. -/
{imports}
set_option linter.unusedVariables false
namespace MalVerif.PyN.Gen
{opens}

'''
IMPORTS = {'M': 'import MalVerif.Py.PreludeNeo4j\nimport MalVerif.Py.GenModel.Assoc\nimport MalVerif.Py.GenModel.Assets',
           'G': 'import MalVerif.Py.PreludeNeo4j\nimport MalVerif.Py.GenAgSerial.ToDict'}
OPENS = {'M': 'open MalVerif.PyM MalVerif.PyM.Gen MalVerif.PyN', 'G': 'open MalVerif.Py MalVerif.Py.Gen MalVerif.PyN'}

def translate_function(fnode, dom, sigs):
    hints = {}
    last = None
    for _ in range(6):
        tr = Tr(fnode, dom, sigs, hints)
        before = dict(hints)
        txt = tr.translate()
        if hints == before and 'not yet known' not in txt: return txt
        last = txt
    raise Unsupported(f'{fnode.name}: the type of a local could not be determined')

def generate(repo, modules=None) -> dict[str, str]:
    tree = ast.parse(open(os.path.join(repo, SRC), encoding='utf-8').read())
    order = [m for m in MODULE_ORDER if not modules or m in modules]
    sigs = model_signatures(repo) if any(MODULES[m][1] == 'M' for m in order) else {}
    out = {}
    for mod in order:
        name, dom = MODULES[mod]
        found = [n for n in tree.body if isinstance(n, ast.FunctionDef) and n.name == name]
        if len(found) != 1: raise Unsupported(f'{SRC}: function {name} not found')
        txt = HEADER.format(path=SRC, imports=IMPORTS[dom], opens=OPENS[dom])
        txt += translate_function(found[0], dom, sigs) + '\nend MalVerif.PyN.Gen\n'
        out[mod] = txt
    return out

def main(argv):
    repo = argv[1]
    try:
        out = generate(repo)
    except Unsupported as e:
        print(f'UNSUPPORTED: {e}')
        return 3
    if argv[2] == '--check':
        bad = [m for m, t in out.items() if not os.path.exists(os.path.join(argv[3], m + '.lean'))
               or open(os.path.join(argv[3], m + '.lean'), encoding='utf-8').read() != t]
        print('changed: ' + ' '.join(bad) if bad else 'unchanged')
        return 1 if bad else 0
    os.makedirs(argv[2], exist_ok=True)
    for m, t in out.items():
        with open(os.path.join(argv[2], m + '.lean'), 'w', encoding='utf-8') as fh: fh.write(t)
    return 0

if __name__ == '__main__':
    sys.exit(main(sys.argv))
