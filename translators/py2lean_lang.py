#!/usr/bin/env python3
"""py2lean_lang — translate the language-graph lookups of maltoolbox/language/languagegraph.py to Lean 4.

    py2lean_lang.py <repo> <outdir>      writes <outdir>/<Module>.lean for every entry of MODULES
    py2lean_lang.py <repo> --check <dir> exit 0 iff regenerated text == files in <dir>

Same discipline as translators/py2lean.py (DESIGN.md §I.9): *syntax directed and thin*.  One Python statement
becomes one `do` statement (plus, in front of it, one `let` per object allocation / raising heap access that the
statement contains, in Python's evaluation order); a subscript on an object of the language specification becomes a
field read of the object's record in the heap `s : LS`; `d['reaches'] = ..` a heap update; `copy.deepcopy` an
allocation (`deepcopyStep` / `deepcopyList`); `l.extend(m)` an in-place update of the list object; `a = b` shares
the reference; `raise` becomes `throw`; recursion takes `fuel`; `while` a bounded unrolling.  Everything that is
not recognised raises `Unsupported` — the translator never guesses.  Dropped, and only that: docstrings, calls on
`logger`, the message of exceptions, locals that only feed those.

`MalVerif/Py/PreludeLang.lean` says how the Python values appear in Lean (trusted); the tables `SIGS`, `KEYS`,
`ATTRS` below say which Python expression has which type (trusted; the annotations in the source are only
`dict` / `list` / `Any`).  This file shares no code with py2lean.py.
"""
from __future__ import annotations
import ast, os, sys

class Unsupported(Exception):
    pass

PYFILE = 'maltoolbox/language/languagegraph.py'

# ------------------------------------------------------------------ what is translated
# module -> [(class, function)]
MODULES = {
    'Attacks': [('LanguageGraph', '_get_attacks_for_asset_type')],
    'Vars': [('LanguageGraph', '_get_variable_for_asset_type_by_name')],
    'Assets': [('LanguageGraphAsset', 'is_subasset_of'), ('LanguageGraphAsset', 'get_all_subassets'),
               ('LanguageGraphAsset', 'get_all_superassets')],
    'Assocs': [('LanguageGraphAssociation', 'contains_fieldname'), ('LanguageGraphAssociation', 'contains_asset'),
               ('LanguageGraphAssociation', 'get_opposite_fieldname'), ('LanguageGraphAssociation', 'get_opposite_asset'),
               ('LanguageGraph', 'get_asset_by_name'), ('LanguageGraph', 'get_association_by_fields_and_assets')],
}
MODULE_ORDER = ['Attacks', 'Vars', 'Assets', 'Assocs']
IMPORTS = {'Attacks': [], 'Vars': [], 'Assets': [], 'Assocs': ['Assets']}
# which heap a module's functions live on: 'LS' (the language specification, mutable objects) or 'GH' (the
# language-graph objects, read only)
HEAP = {'Attacks': 'LS', 'Vars': 'LS', 'Assets': 'GH', 'Assocs': 'GH'}

TIE = {
    'gen_dir': 'MalVerif/Py/GenLang',
    'gen_modules': MODULE_ORDER,
    'order': 30,
    'chain': ['MalVerif.Py.AbsLang', 'MalVerif.Py.TieLang', 'MalVerif.Py.TieLangVars', 'MalVerif.PropsGen.C03',
              'MalVerif.Py.AbsLangGraph', 'MalVerif.Py.TieLangGraph', 'MalVerif.PropsGen.C15'],
    'needs': {
        'C03': ['MalVerif.Py.TieLang', 'MalVerif.Py.TieLangVars', 'MalVerif.PropsGen.C03'],
        'C15': ['MalVerif.Py.TieLangGraph', 'MalVerif.PropsGen.C15'],
    },
    'sources': {
        'C03': 'language/languagegraph.py: LanguageGraph._get_attacks_for_asset_type (recursion over superAsset, '
               'copy.deepcopy, the overrides flag, list.extend on the accumulated step dictionaries)',
        'C15': 'language/languagegraph.py: LanguageGraphAsset.is_subasset_of, get_all_subassets, get_all_superassets; '
               'LanguageGraphAssociation.contains_fieldname, contains_asset, get_opposite_fieldname, get_opposite_asset; '
               'LanguageGraph.get_asset_by_name, get_association_by_fields_and_assets',
    },
}

# ------------------------------------------------------------------ the type tables (trusted)
# types: 'str' 'bool' 'int' 'none' | ('opt', T) ('list', T) ('dict', 'str', T) | object types below
CLASS_TYPE = {'LanguageGraph': 'lgraph', 'LanguageGraphAsset': 'gasset', 'LanguageGraphAssociation': 'gassoc'}
PREFIX = {'lgraph': 'lg_', 'gasset': 'lgasset_', 'gassoc': 'lgassoc_'}
# signatures the source annotates too vaguely: (class type, name) -> ([parameter types], result type)
SIGS = {
    ('lgraph', '_get_attacks_for_asset_type'): (['str'], ('dict', 'str', 'stepref')),
    ('lgraph', '_get_variable_for_asset_type_by_name'): (['str', 'str'], 'varobj'),
    ('gasset', 'is_subasset_of'): (['gasset'], 'bool'),
    ('gasset', 'get_all_subassets'): ([], ('list', 'gasset')),
    ('gasset', 'get_all_superassets'): ([], ('list', 'gasset')),
    ('gassoc', 'contains_fieldname'): (['str'], 'bool'),
    ('gassoc', 'contains_asset'): (['gasset'], 'bool'),
    ('gassoc', 'get_opposite_fieldname'): (['str'], 'str'),
    ('gassoc', 'get_opposite_asset'): (['gasset'], ('opt', 'gasset')),
    ('lgraph', 'get_asset_by_name'): (['str'], ('opt', 'gasset')),
    ('lgraph', 'get_association_by_fields_and_assets'): (['str', 'str', 'str', 'str'], ('opt', 'gassoc')),
}
# what the source's annotation must look like for a table type (a changed annotation is not silently accepted)
ANN_OK = {'str': {'str'}, 'bool': {'bool'}, 'varobj': {'dict'}, 'gasset': {'LanguageGraphAsset', 'Any'},
          ('dict', 'str', 'stepref'): {'dict'}, ('list', 'gasset'): {'list[LanguageGraphAsset]'},
          ('opt', 'gasset'): {'Optional[LanguageGraphAsset]'}, ('opt', 'gassoc'): {'Optional[LanguageGraphAssociation]'}}
# d['key'] on the dictionaries of the language specification: type -> key -> (lean reader, result type)
KEYS = {
    'lspec': {'assets': ('s.assets', ('list', 'assetd')), 'associations': ('s.associations', ('list', 'assocd'))},
    'assetd': {'name': ('{x}.name', 'str'), 'superAsset': ('{x}.superAsset', ('opt', 'str')),
               'attackSteps': ('{x}.attackSteps', ('list', 'stepref')), 'variables': ('{x}.variables', ('list', 'vard'))},
    'vard': {'name': ('{x}.name', 'str'), 'stepExpression': ('{x}.stepExpression', 'expr')},
    'assocd': {'leftAsset': ('{x}.leftAsset', 'str'), 'rightAsset': ('{x}.rightAsset', 'str')},
    'stepref': {'name': ('(s.step {x}).name', 'str'), 'type': ('(s.step {x}).type', 'str'),
                'reaches': ('(s.step {x}).reaches', ('opt', 'reachref'))},
    'reachref': {'overrides': ('(s.reach {x}).overrides', 'bool'),
                 'stepExpressions': ('(s.reach {x}).stepExpressions', 'listref')},
}
WRITABLE = {('stepref', 'reaches')}            # d['reaches'] = ..  on a step dictionary object; nothing else
# obj.attr on the language-graph objects: type -> attr -> (lean reader, result type)
ATTRS = {
    'lgraph': {'_lang_spec': ('s', 'lspec'), 'assets': ('s.assets', ('list', 'gasset')),
               'associations': ('s.associations', ('list', 'gassoc'))},
    'gasset': {'name': ('(s.asset {x}).name', ('opt', 'str')), 'super_assets': ('(s.asset {x}).super_assets', ('list', 'gasset')),
               'sub_assets': ('(s.asset {x}).sub_assets', ('list', 'gasset'))},
    'gassoc': {'name': ('(s.assoc {x}).name', 'str'), 'left_field': ('(s.assoc {x}).left_field', 'gfield'),
               'right_field': ('(s.assoc {x}).right_field', 'gfield')},
    'gfield': {'asset': ('{x}.asset', 'gasset'), 'fieldname': ('{x}.fieldname', 'str')},
}
LEAN_TYPE = {'str': 'String', 'bool': 'Bool', 'int': 'Int', 'stepref': 'SRef', 'reachref': 'RRef', 'listref': 'LRef',
             'assetd': 'PyAssetD', 'vard': 'PyVarD', 'assocd': 'PyAssocD', 'expr': 'PyExpr', 'gasset': 'GARef',
             'gassoc': 'GCRef', 'gfield': 'PyLGField', 'varobj': 'PyVarObj'}
# a local assigned both an Optional variable dictionary and a step-expression dictionary has the sum type 'varobj'
VAROBJ = {('opt', 'vard'): '(PyVarObj.ofOptVar {x})', 'expr': '(PyVarObj.expr {x})', 'varobj': '{x}'}
EXC = {'LanguageGraphAssociationError': 'PyErr.other', 'LanguageGraphException': 'PyErr.languageGraphException',
       'LookupError': 'PyErr.lookupError', 'KeyError': 'PyErr.keyError', 'ValueError': 'PyErr.valueError'}
LEAN_KEYWORDS = {'end', 'at', 'from', 'have', 'show', 'fun', 'then', 'else', 'do', 'in', 'let', 'match', 'with', 'if',
                 'for', 'open', 'where', 'by', 'def', 'theorem', 'instance', 'structure', 'class', 'namespace',
                 'section', 'variable', 'universe', 'import', 'return', 'mut', 'unless', 'try', 'catch', 'finally',
                 'break', 'continue', 'calc', 'obtain', 'using', 'deriving', 'extends', 'local', 'private',
                 'protected', 'mutual', 'partial', 'unsafe', 's', 'fuel', 'some', 'none', 'pure'}

def lean_type(t):
    if t in LEAN_TYPE: return LEAN_TYPE[t]
    if isinstance(t, tuple) and t[0] == 'opt': return f'(Option {lean_type(t[1])})'
    if isinstance(t, tuple) and t[0] == 'list': return f'(List {lean_type(t[1])})'
    if isinstance(t, tuple) and t[0] == 'dict': return f'(List ({lean_type(t[1])} × {lean_type(t[2])}))'
    raise Unsupported(f'type {t}')

def unknown(t): return t == '?' or (isinstance(t, tuple) and any(unknown(x) for x in t[1:]))
def esc(n): return f'{n}_' if n in LEAN_KEYWORDS else n
def is_const(e, v=None): return isinstance(e, ast.Constant) and (v is None or e.value == v)
def is_none(e): return isinstance(e, ast.Constant) and e.value is None
def is_logger_call(e):
    return isinstance(e, ast.Call) and isinstance(e.func, ast.Attribute) and isinstance(e.func.value, ast.Name) \
        and e.func.value.id == 'logger'
def is_dropped(st):
    return isinstance(st, ast.Expr) and (is_logger_call(st.value) or (isinstance(st.value, ast.Constant) and isinstance(st.value.value, str)))
def ends_in_jump(stmts):
    live = [s for s in stmts if not is_dropped(s)]
    return bool(live) and isinstance(live[-1], (ast.Return, ast.Raise, ast.Continue))

# ------------------------------------------------------------------ function table
class Fn:
    def __init__(self, module, cls, node):
        self.module, self.cls, self.node, self.pyname = module, cls, node, node.name
        self.selftype = CLASS_TYPE[cls]
        self.heap = HEAP[module]
        self.lean = PREFIX[self.selftype] + node.name
        if (self.selftype, node.name) not in SIGS: raise Unsupported(f'no signature for {cls}.{node.name}')
        ptypes, self.ret = SIGS[(self.selftype, node.name)]
        args = node.args
        if args.vararg or args.kwarg or args.kwonlyargs or args.defaults or args.posonlyargs:
            raise Unsupported(f'{node.name}: parameter list shape')
        if len(args.args) != len(ptypes) + 1 or args.args[0].arg != 'self':
            raise Unsupported(f'{node.name}: expected self + {len(ptypes)} parameters')
        for a, t in zip(args.args[1:], ptypes):
            if a.annotation is not None and ast.unparse(a.annotation).replace(' ', '') not in ANN_OK.get(t, ()):
                raise Unsupported(f'{node.name}: annotation of {a.arg} is {ast.unparse(a.annotation)}')
        if node.returns is not None and ast.unparse(node.returns).replace(' ', '') not in ANN_OK.get(self.ret, ()):
            raise Unsupported(f'{node.name}: return annotation {ast.unparse(node.returns)}')
        if [d for d in node.decorator_list]: raise Unsupported(f'{node.name}: decorators')
        self.params = [(args.args[0].arg, self.selftype)] + [(a.arg, t) for a, t in zip(args.args[1:], ptypes)]
        # syntactic over-approximations, refined by `analyse`
        self.calls = set()
        self.mutates = False       # allocates / writes heap objects: returns the heap
        self.recursive = False
        self.raises = None         # known after translation (callees are translated first)

def collect(repo, order):
    tree = ast.parse(open(os.path.join(repo, PYFILE), encoding='utf-8').read())
    classes = {c.name: c for c in tree.body if isinstance(c, ast.ClassDef)}
    fns, by_method = {}, {}
    for mod in order:
        for cls, name in MODULES[mod]:
            found = [n for n in classes[cls].body if isinstance(n, ast.FunctionDef) and n.name == name] if cls in classes else []
            if len(found) != 1: raise Unsupported(f'{PYFILE}: function {cls}.{name} not found (or defined twice)')
            f = Fn(mod, cls, found[0])
            fns[f.lean] = f; by_method[(f.selftype, name)] = f
    # `==` on the dataclasses is the generated value comparison only as long as the class does not define its own
    for cls in ('LanguageGraphAsset', 'LanguageGraphAssociation'):
        c = classes.get(cls)
        if c is None: raise Unsupported(f'class {cls} not found')
        if any(isinstance(n, ast.FunctionDef) and n.name in ('__eq__', '__ne__', '__hash__', '__bool__', '__len__') for n in c.body):
            raise Unsupported(f'{cls} defines its own comparison / truthiness')
        decs = [ast.unparse(d) for d in c.decorator_list]
        if decs != ['dataclass']: raise Unsupported(f'{cls}: decorators {decs} (prelude assumes a plain @dataclass)')
    return fns, by_method

def analyse(fns):
    by_name = {}
    for f in fns.values(): by_name.setdefault(f.pyname, []).append(f)
    for f in fns.values():
        for n in ast.walk(f.node):
            if isinstance(n, ast.Call):
                if isinstance(n.func, ast.Attribute):
                    if ast.unparse(n.func) == 'copy.deepcopy': f.mutates = True
                    if n.func.attr in ('extend', 'append', 'remove', 'pop', 'insert', 'clear', 'update') and not isinstance(n.func.value, ast.Name):
                        f.mutates = True
                    for g in by_name.get(n.func.attr, []): f.calls.add(g.lean)
            if isinstance(n, (ast.Assign, ast.AugAssign, ast.Delete)):
                tgts = n.targets if not isinstance(n, ast.AugAssign) else [n.target]
                for t in tgts:
                    if isinstance(t, ast.Attribute) or (isinstance(t, ast.Subscript) and not isinstance(t.value, ast.Name)):
                        f.mutates = True
    changed = True
    while changed:
        changed = False
        for f in fns.values():
            for c in f.calls:
                if fns[c].mutates and not f.mutates: f.mutates = True; changed = True
    for f in fns.values():
        f.recursive = f.lean in f.calls
        seen, todo = set(), list(f.calls)
        while todo:
            c = todo.pop()
            if c in seen: continue
            seen.add(c); todo.extend(fns[c].calls)
        if f.lean in seen and not f.recursive: raise Unsupported(f'mutual recursion through {f.lean}')
        if f.mutates and f.heap != 'LS': raise Unsupported(f'{f.lean}: writes to language-graph objects')
    # callees first
    order, done = [], set()
    def visit(f):
        if f.lean in done: return
        done.add(f.lean)
        for c in sorted(f.calls):
            if c != f.lean: visit(fns[c])
        order.append(f)
    for f in fns.values(): visit(f)
    return order

# ------------------------------------------------------------------ translation of one function
class Tr:
    def __init__(self, fn, fns, by_method):
        self.fn, self.fns, self.by_method = fn, fns, by_method
        self.locals = {}           # python name -> type
        self.narrow = {}           # ast.dump(expr) -> (lean, type)
        self.scopes = [[]]         # names declared per open block
        self.lines = []
        self.tmp = 0
        self.ind = 0
        self.in_loop = 0
        self.cond_depth = 0        # > 0 while translating an operand that Python may skip (short circuit)

    def fresh(self, base):
        self.tmp += 1
        return f'{base}_{self.tmp}'
    def emit(self, s): self.lines.append('  ' * self.ind + s)

    # ---- truthiness
    def truthy(self, x, t):
        if t == 'bool': return x
        if isinstance(t, tuple) and t[0] == 'list': return f'!({x}).isEmpty'
        if isinstance(t, tuple) and t[0] == 'opt' and t[1] in ('assetd', 'vard', 'assocd', 'reachref', 'gasset', 'gassoc'):
            return f'({x}).isSome'          # these dictionaries / objects are never empty / define no __bool__
        if t == ('opt', 'str'): return f'(pyTruthyStr {x}).isSome'
        if t == 'varobj': return f'({x}).truthy'
        raise Unsupported(f'truthiness of type {t}')

    # ---- expressions: (lean text, type); may emit `let` lines for allocations in front of the current statement
    def expr(self, e):
        key = ast.dump(e)
        if key in self.narrow: return self.narrow[key]
        if isinstance(e, ast.Constant):
            v = e.value
            if v is True: return 'true', 'bool'
            if v is False: return 'false', 'bool'
            if v is None: return 'none', ('opt', '?')
            if isinstance(v, str): return '"' + v.replace('\\', '\\\\').replace('"', '\\"') + '"', 'str'
            raise Unsupported(f'constant {v!r}')
        if isinstance(e, ast.Name):
            if e.id in self.locals: return esc(e.id), self.locals[e.id]
            raise Unsupported(f'unknown name {e.id}')
        if isinstance(e, ast.Attribute):
            x, t = self.expr(e.value)
            if t in ATTRS and e.attr in ATTRS[t]:
                rd, rt = ATTRS[t][e.attr]
                if rt == 'lspec' and self.fn.heap != 'LS': raise Unsupported('_lang_spec outside the specification heap')
                if t == 'lgraph' and rt != 'lspec' and self.fn.heap != 'GH': raise Unsupported(f'self.{e.attr} outside the graph heap')
                return rd.format(x=x), rt
            raise Unsupported(f'attribute {e.attr} of {t}')
        if isinstance(e, ast.Subscript):
            x, t = self.expr(e.value)
            if isinstance(t, tuple) and t[0] == 'opt' and t[1] in KEYS:      # subscript on a possibly-None object
                x, t = f'(← pyNotNone {x})', t[1]
            if t in KEYS:
                if not (isinstance(e.slice, ast.Constant) and e.slice.value in KEYS[t]):
                    raise Unsupported(f'key {ast.unparse(e.slice)} of {t}')
                rd, rt = KEYS[t][e.slice.value]
                return rd.format(x=x), rt
            if isinstance(t, tuple) and t[0] == 'dict':
                k, kt = self.expr(e.slice)
                if kt != t[1]: raise Unsupported(f'dict key type {kt}')
                return f'(← pyGetItem {x} {k})', t[2]
            if t == 'varobj' and is_const(e.slice, 'stepExpression'):
                return f'(← pyVarObjGet {x} "stepExpression")', 'varobj'
            raise Unsupported(f'subscript on {t}')
        if isinstance(e, ast.UnaryOp) and isinstance(e.op, ast.Not):
            x, t = self.expr(e.operand)
            return f'!({self.truthy(x, t)})', 'bool'
        if isinstance(e, ast.BoolOp):
            return self.boolop(e)
        if isinstance(e, ast.Compare):
            return self.compare(e)
        if isinstance(e, ast.Call):
            return self.call(e)
        if isinstance(e, ast.Dict):
            if not e.keys: return '[]', ('dict', 'str', '?')
            ks = [k.value if isinstance(k, ast.Constant) else None for k in e.keys]
            if ks == ['overrides', 'stepExpressions']:
                self.no_alloc_here('a dict display')
                o, ot = self.expr(e.values[0]); l, lt = self.expr(e.values[1])
                if ot != 'bool' or lt != 'listref': raise Unsupported('reaches dict display value types')
                r = self.fresh('r')
                self.emit(f'let {r} := s.allocReach {{ overrides := {o}, stepExpressions := {l} }}')
                self.emit(f's := {r}.1')
                return f'{r}.2', 'reachref'
            raise Unsupported(f'dict display with keys {ks}')
        if isinstance(e, ast.List):
            parts = [self.expr(v) for v in e.elts]
            if not parts: return '[]', ('list', '?')
            ts = {t for _, t in parts}
            if len(ts) != 1: raise Unsupported('heterogeneous list display')
            return '[' + ', '.join(x for x, _ in parts) + ']', ('list', ts.pop())
        raise Unsupported(f'expression {ast.unparse(e)}')

    def no_alloc_here(self, what):
        if self.cond_depth: raise Unsupported(f'{what} allocates inside an operand that may be skipped')
        if not self.fn.mutates: raise Unsupported(f'{what} allocates in a function classified as read-only')

    def boolop(self, e):
        """`a and b` / `a or b` with Python's short circuit: an operand that may raise is only evaluated when reached"""
        is_and = isinstance(e.op, ast.And)
        parts = []
        for i, v in enumerate(e.values):
            if i: self.cond_depth += 1
            try:
                x, t = self.expr(v)
            finally:
                if i: self.cond_depth -= 1
            parts.append(self.truthy(x, t))
        res = parts[-1]
        for p in reversed(parts[:-1]):
            if '(← ' in res:
                res = (f'(← (if {p} then (do pure ({res}) : Except PyErr Bool) else pure false))' if is_and else
                       f'(← (if {p} then (pure true : Except PyErr Bool) else (do pure ({res}))))')
            else:
                res = f'({p} && {res})' if is_and else f'({p} || {res})'
        return res, 'bool'

    def compare(self, e):
        if len(e.ops) != 1: raise Unsupported('chained comparison')
        op, rhs = e.ops[0], e.comparators[0]
        if is_none(rhs) and isinstance(op, (ast.Is, ast.IsNot)):
            x, t = self.expr(e.left)
            if not (isinstance(t, tuple) and t[0] == 'opt'): raise Unsupported(f'comparison of {t} with None')
            return (f'({x}).isNone' if isinstance(op, ast.Is) else f'({x}).isSome'), 'bool'
        l, lt = self.expr(e.left)
        r, rt = self.expr(rhs)
        if isinstance(op, (ast.In, ast.NotIn)):
            if isinstance(rt, tuple) and rt[0] == 'dict' and lt == rt[1]: res = f'(dictIn {r} {l})'
            elif rt in ('reachref', ('opt', 'reachref')) and lt == 'str':
                if rt != 'reachref': r = f'(← pyNotNone {r})'
                res = f'(pyReachHasKey {r} {l})'
            else: raise Unsupported(f'membership of {lt} in {rt}')
            return (res if isinstance(op, ast.In) else f'!{res}'), 'bool'
        if isinstance(op, (ast.Eq, ast.NotEq)):
            if lt == rt and lt in ('str', 'bool'): res = f'({l} == {r})'
            elif lt == ('opt', 'str') and rt == 'str': res = f'({l} == some {r})'        # None == 'x' is False
            elif lt == 'str' and rt == ('opt', 'str'): res = f'(some {l} == {r})'
            elif lt == rt == 'gasset': res = f'(lgAssetEq s {l} {r})'                    # dataclass value equality
            else: raise Unsupported(f'== between {lt} and {rt}')
            return (res if isinstance(op, ast.Eq) else f'!{res}'), 'bool'
        raise Unsupported(f'comparison {ast.unparse(e)}')

    def find_gen(self, g):
        """(x for x in L if c)  ->  lean list of the elements satisfying c, element type"""
        if not isinstance(g, ast.GeneratorExp) or len(g.generators) != 1: raise Unsupported('generator shape')
        c = g.generators[0]
        if c.is_async or not isinstance(c.target, ast.Name) or not (isinstance(g.elt, ast.Name) and g.elt.id == c.target.id):
            raise Unsupported('generator shape')
        it, itt = self.expr(c.iter)
        if not (isinstance(itt, tuple) and itt[0] == 'list') or unknown(itt): raise Unsupported(f'generator over {itt}')
        v = c.target.id
        saved = self.locals.get(v); self.locals[v] = itt[1]
        self.cond_depth += 1
        try:
            conds = [self.expr(x) for x in c.ifs]
        finally:
            self.cond_depth -= 1
            if saved is None: del self.locals[v]
            else: self.locals[v] = saved
        body = ' && '.join(self.truthy(x, t) for x, t in conds) or 'true'
        if '(← ' in body: raise Unsupported('generator condition that may raise')
        return it, f'(fun {esc(v)} => {body})', itt[1]

    def call(self, e):
        if e.keywords: raise Unsupported('keyword arguments')
        f = e.func
        if isinstance(f, ast.Attribute) and ast.unparse(f) == 'copy.deepcopy' and len(e.args) == 1:
            self.no_alloc_here('copy.deepcopy')
            x, t = self.expr(e.args[0])
            fn = {'stepref': 'deepcopyStep', 'listref': 'deepcopyList'}.get(t)
            if fn is None: raise Unsupported(f'deepcopy of {t}')
            r = self.fresh('r')
            self.emit(f'let {r} := {fn} s {x}')
            self.emit(f's := {r}.1')
            return f'{r}.2', t
        if isinstance(f, ast.Name) and f.id == 'next' and len(e.args) == 2 and is_none(e.args[1]):
            it, fun, et = self.find_gen(e.args[0])
            return f'({it}.find? {fun})', ('opt', et)
        if isinstance(f, ast.Attribute):
            try: recv, rt = self.expr(f.value)
            except Unsupported: recv, rt = None, None
            g = self.by_method.get((rt, f.attr))
            if g is not None:
                if len(e.args) != len(g.params) - 1: raise Unsupported(f'call of {g.lean}: arity')
                args = []
                for (pn, pt), a in zip(g.params[1:], e.args):
                    x, t = self.expr(a)
                    if t != pt: raise Unsupported(f'call of {g.lean}: argument {pn} has type {t}, expected {pt}')
                    args.append(x)
                if g.selftype != 'lgraph': args.insert(0, recv)
                fuel = ''
                if g.recursive: fuel = 'fuel ' if g.lean == self.fn.lean else '(pyFuelL s) '
                txt = f'{g.lean} {fuel}s ' + ' '.join(args)
                if g.mutates:
                    self.no_alloc_here(f'call of {g.lean}')
                    r = self.fresh('r')
                    self.emit(f'let {r} ← {txt.strip()}')
                    self.emit(f's := {r}.1')
                    return f'{r}.2', g.ret
                if g.raises is None and g.lean != self.fn.lean: raise Unsupported(f'{g.lean} used before it is translated')
                if g.raises or g.lean == self.fn.lean: return f'(← {txt.strip()})', g.ret
                return f'({txt.strip()})', g.ret
        raise Unsupported(f'call {ast.unparse(e)}')

    # ---- local variables
    def declare(self, name, t, value):
        if self.var_types.get(name) == 'varobj' and t in VAROBJ:
            value, t = VAROBJ[t].format(x=value), 'varobj'
        if name in self.locals:
            if self.dry and self.locals[name] != t and self.locals[name] in VAROBJ and t in VAROBJ:
                self.var_types[name] = 'varobj'; self.locals[name] = t = 'varobj'      # learnt in the dry run
            if self.locals[name] != t:
                if unknown(self.locals[name]) and not unknown(t): self.locals[name] = t
                elif isinstance(self.locals[name], tuple) and self.locals[name][0] == 'opt' and self.locals[name][1] == t:
                    value = f'(some {value})'
                elif t == ('opt', '?') and isinstance(self.locals[name], tuple) and self.locals[name][0] == 'opt': pass
                elif unknown(t) and t[0] == self.locals[name][0]: pass
                else: raise Unsupported(f'local {name} changes type from {self.locals[name]} to {t}')
            self.emit(f'{esc(name)} := {value}')
        else:
            if unknown(t):
                t2 = self.var_types.get(name)
                if t2 is None or unknown(t2):
                    if not self.dry: raise Unsupported(f'type of local {name}')
                else: t = t2
            self.locals[name] = t
            self.scopes[-1].append(name)
            ann = '' if unknown(t) else f' : {lean_type(t)}'
            self.emit(f'let mut {esc(name)}{ann} := {value}')
        self.narrow.pop(ast.dump(ast.Name(id=name, ctx=ast.Load())), None)
        if not unknown(self.locals[name]): self.var_types.setdefault(name, self.locals[name])

    def block(self, stmts):
        self.ind += 1
        self.scopes.append([])
        n0 = len(self.lines)
        saved_narrow = dict(self.narrow)
        for st in stmts: self.stmt(st)
        if len(self.lines) == n0: self.emit('pure ()')
        for v in self.scopes.pop(): del self.locals[v]
        self.narrow = saved_narrow
        self.ind -= 1

    def ret_value(self, x):
        if self.fn.mutates: return f'return (s, {x})' if self.fn.ret != 'none' else 'return s'
        return f'return {x}'

    def coerce(self, x, t, want):
        if t == want: return x
        if want == 'varobj' and t in VAROBJ: return VAROBJ[t].format(x=x)
        if isinstance(want, tuple) and want[0] == 'opt':
            if t == want[1]: return f'(some {x})'
            if t == ('opt', '?'): return 'none'
        if isinstance(want, tuple) and want[0] in ('list', 'dict') and unknown(t) and t[0] == want[0]: return x
        raise Unsupported(f'cannot use {t} as {want}')

    # ---- statements
    def stmt(self, st):
        if is_dropped(st) or isinstance(st, ast.Pass): return
        if isinstance(st, (ast.Assign, ast.AnnAssign)):
            tgts = st.targets if isinstance(st, ast.Assign) else [st.target]
            if len(tgts) != 1 or st.value is None: raise Unsupported('assignment shape')
            tgt = tgts[0]
            if isinstance(tgt, ast.Name):
                if tgt.id in self.unused:
                    if not all(isinstance(n, (ast.Constant, ast.BinOp, ast.JoinedStr, ast.operator, ast.expr_context, ast.FormattedValue, ast.Name, ast.Tuple, ast.Mod))
                               for n in ast.walk(st.value)):
                        raise Unsupported(f'unused local {tgt.id} with a value that is not a plain message')
                    return
                v = st.value
                if isinstance(v, ast.Call) and isinstance(v.func, ast.Attribute) and v.func.attr == 'pop' and not v.args \
                        and not v.keywords and isinstance(v.func.value, ast.Name):
                    l, lt = self.expr(v.func.value)              # x = l.pop() on a local list
                    if not (isinstance(lt, tuple) and lt[0] == 'list') or unknown(lt): raise Unsupported(f'pop on {lt}')
                    p = self.fresh('p')
                    self.emit(f'let {p} ← pyPop {l}')
                    self.emit(f'{l} := {p}.2')
                    self.declare(tgt.id, lt[1], f'{p}.1')
                    return
                x, t = self.expr(v)
                self.declare(tgt.id, t, x)
                return
            if isinstance(tgt, ast.Subscript):
                x, t = self.expr(st.value)                      # Python evaluates the right-hand side first
                b, bt = self.expr(tgt.value)
                if isinstance(bt, tuple) and bt[0] == 'dict' and isinstance(tgt.value, ast.Name):
                    k, kt = self.expr(tgt.slice)
                    if kt != bt[1]: raise Unsupported('dict key type')
                    if unknown(bt): bt = ('dict', 'str', t); self.locals[tgt.value.id] = bt; self.var_types[tgt.value.id] = bt
                    if t != bt[2]: raise Unsupported(f'dict value type {t}')
                    self.emit(f'{esc(tgt.value.id)} := dictSet {b} {k} {x}')
                    return
                if isinstance(tgt.slice, ast.Constant) and (bt, tgt.slice.value) in WRITABLE:
                    want = KEYS[bt][tgt.slice.value][1]
                    v = self.coerce(x, t, want)
                    o = self.fresh('t')
                    self.emit(f'let {o} := {b}')
                    self.emit(f's := s.setStep {o} {{ s.step {o} with {tgt.slice.value} := {v} }}')
                    return
                raise Unsupported(f'assignment to {ast.unparse(tgt)} (an object the translation treats as immutable)')
            raise Unsupported(f'assignment target {ast.unparse(tgt)}')
        if isinstance(st, ast.Expr) and isinstance(st.value, ast.Call):
            c = st.value
            if isinstance(c.func, ast.Attribute) and c.func.attr == 'extend' and len(c.args) == 1 and not c.keywords:
                l, lt = self.expr(c.func.value)
                m, mt = self.expr(c.args[0])
                if lt == 'listref' and mt == 'listref':
                    self.no_alloc_here('list.extend on a heap list')
                    self.emit(f's := s.extendList {l} {m}')
                    return
                if isinstance(lt, tuple) and lt[0] == 'list' and isinstance(c.func.value, ast.Name) and isinstance(mt, tuple) and mt[0] == 'list':
                    if unknown(lt): lt = mt; self.locals[c.func.value.id] = lt; self.var_types[c.func.value.id] = lt
                    if lt != mt: raise Unsupported(f'extend of {mt} to {lt}')
                    self.emit(f'{l} := {l} ++ {m}')
                    return
            raise Unsupported(f'statement {ast.unparse(st)}')
        if isinstance(st, ast.Try):
            # idiom:  try: v = next(<generator>)  except StopIteration: <handler ending in return / raise>
            live = [b for b in st.body if not is_dropped(b)]
            ok = len(live) == 1 and isinstance(live[0], ast.Assign) and len(live[0].targets) == 1 and \
                isinstance(live[0].targets[0], ast.Name) and isinstance(live[0].value, ast.Call) and \
                isinstance(live[0].value.func, ast.Name) and live[0].value.func.id == 'next' and len(live[0].value.args) == 1 and \
                not live[0].value.keywords and len(st.handlers) == 1 and not st.orelse and not st.finalbody and \
                isinstance(st.handlers[0].type, ast.Name) and st.handlers[0].type.id == 'StopIteration' and \
                st.handlers[0].name is None and ends_in_jump(st.handlers[0].body)
            if not ok: raise Unsupported('try statement (only `try: v = next(gen)` / `except StopIteration:` is known)')
            it, fun, et = self.find_gen(live[0].value.args[0])
            v = live[0].targets[0].id
            if v in self.locals: raise Unsupported(f'try: rebinding of {v}')
            self.emit(f'let some {esc(v)} := ({it}.find? {fun})')
            self.ind += 1
            self.emit('| do')
            self.block(st.handlers[0].body)
            self.ind -= 1
            self.locals[v] = et; self.scopes[-1].append(v)
            return
        if isinstance(st, ast.If):
            if is_logger_call(st.test): raise Unsupported('logger call as condition')
            t0 = st.test
            # `if not x: <... return / raise>` on an Optional local: afterwards x is present
            if isinstance(t0, ast.UnaryOp) and isinstance(t0.op, ast.Not) and isinstance(t0.operand, ast.Name) and not st.orelse \
                    and ends_in_jump(st.body) and not isinstance([b for b in st.body if not is_dropped(b)][-1], ast.Continue):
                x, xt = self.expr(t0.operand)
                if isinstance(xt, tuple) and xt[0] == 'opt' and xt[1] in ('assetd', 'vard', 'assocd', 'gasset', 'gassoc'):
                    v = self.fresh(t0.operand.id)
                    self.emit(f'let some {v} := {x}')
                    self.ind += 1
                    self.emit('| do')
                    self.block(st.body)
                    self.ind -= 1
                    self.narrow[ast.dump(t0.operand)] = (v, xt[1])
                    return
            # `if x is None: <... return / raise>`
            if isinstance(t0, ast.Compare) and len(t0.ops) == 1 and isinstance(t0.ops[0], ast.Is) and is_none(t0.comparators[0]) \
                    and isinstance(t0.left, ast.Name) and not st.orelse and ends_in_jump(st.body) \
                    and not isinstance([b for b in st.body if not is_dropped(b)][-1], ast.Continue):
                x, xt = self.expr(t0.left)
                if isinstance(xt, tuple) and xt[0] == 'opt' and not unknown(xt):
                    v = self.fresh(t0.left.id)
                    self.emit(f'let some {v} := {x}')
                    self.ind += 1
                    self.emit('| do')
                    self.block(st.body)
                    self.ind -= 1
                    self.narrow[ast.dump(t0.left)] = (v, xt[1])
                    return
            # `if x:` on an Optional value: inside, x is present (and, for a string, not empty)
            if isinstance(t0, (ast.Name, ast.Subscript, ast.Attribute)):
                x, xt = self.expr(t0)
                if isinstance(xt, tuple) and xt[0] == 'opt' and '(← ' not in x:
                    scrut = f'(pyTruthyStr {x})' if xt[1] == 'str' else x
                    if xt[1] != 'str': self.truthy(x, xt)      # refuses Optional types whose values may be falsy
                    v = self.fresh('v')
                    self.emit(f'match {scrut} with')
                    self.emit(f'| some {v} =>')
                    key = ast.dump(t0)
                    saved = self.narrow.get(key)
                    self.narrow[key] = (v, xt[1])
                    self.block(st.body)
                    if saved is None: self.narrow.pop(key, None)
                    else: self.narrow[key] = saved
                    self.emit('| none =>')
                    self.block(st.orelse)
                    return
            c, ct = self.expr(t0)
            self.emit(f'if {self.truthy(c, ct)} then')
            self.block(st.body)
            if st.orelse:
                self.emit('else')
                self.block(st.orelse)
            return
        if isinstance(st, ast.For):
            if st.orelse or not isinstance(st.target, ast.Name): raise Unsupported('for shape')
            it, itt = self.expr(st.iter)
            if not (isinstance(itt, tuple) and itt[0] == 'list') or unknown(itt): raise Unsupported(f'iteration over {itt}')
            # the iterated list must be one the translation treats as immutable (a list of the specification /
            # of a graph object: every write to those is refused), never a local list the body could change
            if isinstance(st.iter, ast.Name): raise Unsupported(f'loop over the local list {st.iter.id}')
            if '(← ' in it: raise Unsupported('iterable that may raise')
            v = st.target.id
            if v in self.locals: raise Unsupported(f'loop variable {v} shadows a local')
            self.locals[v] = itt[1]
            self.emit(f'for {esc(v)} in {it} do')
            self.in_loop += 1
            self.block(st.body)
            self.in_loop -= 1
            del self.locals[v]
            return
        if isinstance(st, ast.While):
            return self.while_(st)
        if isinstance(st, ast.Continue):
            if not self.in_loop: raise Unsupported('continue outside a loop')
            self.emit('continue'); return
        if isinstance(st, ast.Return):
            if st.value is None or is_none(st.value):
                if self.fn.ret == 'none': self.emit('return s' if self.fn.mutates else 'return ()')
                elif isinstance(self.fn.ret, tuple) and self.fn.ret[0] == 'opt': self.emit(self.ret_value('none'))
                else: raise Unsupported('bare return in a function with a result')
                return
            x, t = self.expr(st.value)
            self.emit(self.ret_value(self.coerce(x, t, self.fn.ret)))
            return
        if isinstance(st, ast.Raise):
            name = None
            if isinstance(st.exc, ast.Call) and isinstance(st.exc.func, ast.Name): name = st.exc.func.id
            if name not in EXC: raise Unsupported(f'raise {ast.unparse(st.exc) if st.exc else ""}')
            self.emit(f'throw {EXC[name]}')
            return
        raise Unsupported(f'statement {type(st).__name__}: {ast.unparse(st)[:60]}')

    def while_(self, st):
        """`while l:` on a local list that the body pops from and extends (a work list): unrolled at most
        `pyWhileFuel s` times; if the list is still non-empty then, the translation raises PyErr.nonTermination
        (the Python would go on)"""
        if st.orelse or not isinstance(st.test, ast.Name): raise Unsupported('while shape')
        c, ct = self.expr(st.test)
        if not (isinstance(ct, tuple) and ct[0] == 'list'): raise Unsupported('while condition type')
        self.emit('for _ in List.range (pyWhileFuel s) do')
        self.ind += 1
        self.emit(f'if !({self.truthy(c, ct)}) then')
        self.ind += 1; self.emit('break'); self.ind -= 2
        self.in_loop += 1
        self.block(st.body)
        self.in_loop -= 1
        self.emit(f'if {self.truthy(c, ct)} then')
        self.ind += 1; self.emit('throw PyErr.nonTermination'); self.ind -= 1

    # ---- whole function
    def find_unused(self):
        """locals that are only read by dropped code (logging, exception messages)"""
        assigned, read = set(), set()
        def walk(stmts):
            for st in stmts:
                if is_dropped(st): continue
                if isinstance(st, ast.Raise): continue
                for n in ast.iter_child_nodes(st):
                    if isinstance(n, ast.expr):
                        for m in ast.walk(n):
                            if isinstance(m, ast.Name):
                                (read if isinstance(m.ctx, ast.Load) else assigned).add(m.id)
                for fld in ('body', 'orelse', 'finalbody'):
                    if hasattr(st, fld) and isinstance(getattr(st, fld), list) and fld != 'handlers': walk(getattr(st, fld))
                for h in getattr(st, 'handlers', []): walk(h.body)
        walk(self.fn.node.body)
        return assigned - read

    def translate(self):
        self.unused = self.find_unused()
        dry = Tr(self.fn, self.fns, self.by_method)
        dry.unused = self.unused; dry.dry = True; dry.var_types = {}
        dry._translate()
        self.var_types = {k: v for k, v in dry.var_types.items() if not unknown(v)}
        self.dry = False
        return self._translate()

    dry = False
    def _translate(self):
        fn = self.fn
        params = []
        for pn, pt in fn.params:
            self.locals[pn] = pt
            if pt != 'lgraph': params.append(f'({esc(pn)} : {lean_type(pt)})')
        self.scopes = [[]]
        self.ind = 2 if fn.recursive else 1
        if fn.mutates: self.emit('let mut s := s')
        self.block_top(fn.node.body)
        body = '\n'.join(self.lines)
        raises = fn.recursive or fn.mutates or '←' in body or 'throw ' in body
        fn.raises = raises
        rty = lean_type(fn.ret)
        if fn.mutates: rty = f'(LS × {rty})'
        if raises: rty = f'Except PyErr {rty}'
        run = 'do' if raises else 'Id.run do'
        head = f'def {fn.lean} ' + ('(fuel : Nat) ' if fn.recursive else '') + f'(s : {fn.heap}) ' + ' '.join(params)
        head = head.rstrip() + f' : {rty} :='
        src = f'-- {PYFILE}: {fn.cls}.{fn.pyname}\n'
        if fn.recursive:
            src += head + '\n  match fuel with\n  | 0 => throw PyErr.recursionError\n  | fuel + 1 => ' + run + '\n'
        else:
            src += head + ' ' + run + '\n'
        return src + body + '\n'

    def block_top(self, stmts):
        for st in stmts: self.stmt(st)
        live = [s for s in stmts if not is_dropped(s)]
        if not live or not isinstance(live[-1], (ast.Return, ast.Raise)):
            if self.fn.ret != 'none': raise Unsupported(f'{self.fn.lean}: control may reach the end without return')
            self.emit('return s' if self.fn.mutates else 'return ()')

HEADER = '''/- GENERATED by translators/py2lean_lang.py from {path} — do not edit.
   Regenerated and compared on every run of the checks; see MalVerif/Py/PreludeLang.lean for the conventions. -/
{imports}
set_option linter.unusedVariables false
namespace MalVerif.Py.GenLang
open MalVerif.Py MalVerif.Py.LSpec

'''

def closure(modules):
    want, todo = set(), list(modules)
    while todo:
        m = todo.pop()
        if m in want: continue
        if m not in MODULES: raise Unsupported(f'unknown module {m}')
        want.add(m); todo.extend(IMPORTS[m])
    return [m for m in MODULE_ORDER if m in want]

def generate(repo, modules=None) -> dict[str, str]:
    order = closure(modules) if modules else MODULE_ORDER
    fns, by_method = collect(repo, order)
    texts = {}
    for f in analyse(fns):
        texts[f.lean] = Tr(f, fns, by_method).translate()
    out = {}
    for mod in order:
        imports = 'import MalVerif.Py.PreludeLang\n' + ''.join(f'import MalVerif.Py.GenLang.{m}\n' for m in IMPORTS[mod])
        txt = HEADER.format(path=PYFILE, imports=imports.rstrip())
        for cls, name in MODULES[mod]:
            txt += texts[by_method[(CLASS_TYPE[cls], name)].lean] + '\n'
        out[mod] = txt + 'end MalVerif.Py.GenLang\n'
    return out

def main(argv):
    repo = argv[1]
    try:
        out = generate(repo)
    except Unsupported as e:
        print(f'UNSUPPORTED: {e}')
        return 3
    if argv[2] == '--check':
        bad = [m for m, t in out.items() if not os.path.exists(os.path.join(argv[3], m + '.lean'))
               or open(os.path.join(argv[3], m + '.lean'), encoding='utf-8').read() != t]
        print('changed: ' + ' '.join(bad) if bad else 'unchanged')
        return 1 if bad else 0
    os.makedirs(argv[2], exist_ok=True)
    for m, t in out.items():
        with open(os.path.join(argv[2], m + '.lean'), 'w', encoding='utf-8') as fh: fh.write(t)
    return 0

if __name__ == '__main__':
    sys.exit(main(sys.argv))
