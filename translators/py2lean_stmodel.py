#!/usr/bin/env python3
"""py2lean_stmodel — state-keeping emission (the heap AFTER an exception) of the mutators of maltoolbox/model.py.

    py2lean_stmodel.py <repo> <outdir>      writes <outdir>/<Module>.lean (`MalVerif/Py/GenModelSt`)
    py2lean_stmodel.py <repo> --check <dir> exit 0 iff regenerated text == files in <dir>

The rules are those of translators/py2lean_st.py (one rewriting per emitted `do` statement, see
MalVerif/Py/PreludeSt.lean); the statements are those of translators/py2lean_model.py, whose machinery (`MTr`,
`MFn`, `MEffects`, typing tables, refusal rules) is used unchanged.  A separate file only because a translation
domain of harness/tie.py has exactly one directory of generated modules.
"""
from __future__ import annotations
import os, sys
sys.path.insert(0, os.path.dirname(os.path.abspath(__file__)))
import py2lean as P
import py2lean_model as M
import py2lean_st as S

Unsupported = P.Unsupported
MODULE_ORDER = ['Attachment', 'Assets', 'Assoc']
GEN_NS = 'MalVerif.PyM.GenSt'
GEN_MOD = 'MalVerif.Py.GenModelSt'

TIE = {
    'order': 81,
    'gen_dir': 'MalVerif/Py/GenModelSt',
    'gen_modules': MODULE_ORDER + ['Coh'],
    'chain': ['MalVerif.Py.TieModelStErr', 'MalVerif.Py.TieModelSt', 'MalVerif.Py.TieModelStPartial',
              'MalVerif.PropsGen.C05_St'],
    'needs': {'C05': ['MalVerif.Py.TieModelStErr', 'MalVerif.Py.TieModelSt', 'MalVerif.Py.TieModelStPartial',
                      'MalVerif.PropsGen.C05_St']},
    'sources': {'C05': 'state-keeping emission (heap after an exception) of model.py: Model.add_asset, remove_attacker, '
                       'add_association, remove_association, remove_asset_from_association, remove_asset; '
                       'AttackerAttachment.remove_entry_point'},
}

class StMTr(S.StEmit, M.MTr):
    pass

def generate(repo, modules=None) -> dict[str, str]:
    want = [m for m in MODULE_ORDER if (not modules or m in modules or 'Coh' in modules)]
    swap = dict(M.SWAP, Tr=StMTr)
    saved = {k: getattr(P, k) for k in swap}
    for k, v in swap.items(): setattr(P, k, v)
    try:
        order = P.closure(want)
        fns, by_method = P.collect(repo, order)
        for f in fns.values(): f.flocs = M.floc_names(f.node)
        P.analyse(fns)
        out, emitted = {}, []
        for mod in want:
            path, sel = M.MODULES[mod]
            deps = [m for m in P.closure([mod]) if m != mod and m in MODULE_ORDER]
            imports = ['import MalVerif.Py.PreludeSt', f'import MalVerif.Py.GenModel.{mod}'] + \
                      [f'import {GEN_MOD}.{m}' for m in deps]
            txt = S.HEADER.format(tr='py2lean_stmodel.py', path=path, imports='\n'.join(imports), ns=GEN_NS,
                                  opens='MalVerif.PyM MalVerif.PyM.Gen MalVerif.PySt')
            n = 0
            for cls, name in sel:
                f = by_method[(M.CLASS_TYPE[cls], name)]
                if not S.is_st(f): continue
                txt += StMTr(f, fns, by_method).translate() + '\n'; n += 1; emitted.append(f)
            if n == 0: raise Unsupported(f'module {mod}: no mutator that may raise is left')
            txt += f'end {GEN_NS}\n'
            out[mod] = txt
        if not modules or 'Coh' in modules:
            out['Coh'] = S.coherence_module('py2lean_stmodel.py', GEN_NS, 'MalVerif.PyM MalVerif.PyM.Gen MalVerif.PySt',
                                            ['import MalVerif.Py.StLib'] + [f'import {GEN_MOD}.{m}' for m in want],
                                            emitted, 'ModelEnv', 'the modules of MalVerif/Py/GenModelSt', fns)
        return out
    finally:
        for k, v in saved.items(): setattr(P, k, v)

if __name__ == '__main__':
    sys.exit(S.main(sys.argv, generate))
