#!/usr/bin/env python3
"""py2lean_model — translate the instance-model mutators of maltoolbox/model.py to Lean 4 (domain `model`, C05).

    py2lean_model.py <repo> <outdir>      writes <outdir>/<Module>.lean for every entry of MODULES
    py2lean_model.py <repo> --check <dir> exit 0 iff regenerated text == files in <dir>

Same discipline as translators/py2lean.py, whose machinery (scoping of locals, statements, calls of translated
functions, narrowing of Optionals, the bounded `while`) is reused by subclassing: one Python statement becomes one
`do` statement, an attribute read a field read of the object's record in the heap `s : H`, an attribute write a
heap update, `raise` a `throw`; anything not recognised raises `Unsupported`.  What this file adds is the typing
of model.py (pjs objects are dynamically typed: `SchemaGeneratedClass` parameters are typed by their *name*, see
OBJ_PARAM) and the constructs of model.py that the attack-graph core does not use:

  x in l / l.remove(x) / x == y on objects   pyIn / pyRemoveBy / eqAsset … with the equality of the prelude
  hasattr(o, 'a')                            presence of an `Option` field
  getattr(assoc, name)                       a *handle* (FieldLoc) to that field's list; reads and `remove` go
                                             through the handle to the heap
  assoc._properties.keys()                   the pair of field names
  assoc.__class__.__name__                   the class name stored in the object
  t[0], t[1] on an entry-point tuple         fields of the tuple object; t[1].append / .remove update the heap
  l.append((asset, [step]))                  allocation of a tuple object
  s.add / s.discard, {… for …}, d.get(k, []), d[k], d.setdefault(k, []).append(x), d[k].remove(x)

Refused (Unsupported), among others: a `for` over a live heap list (or a field handle) whose body may mutate that
attribute (resp. any field); a local that aliases a heap list (`x = o.attr` without `list(...)`) in a function that
mutates the heap; keyword arguments; anything the base translator refuses.
See MalVerif/Py/PreludeModel.lean for the conventions (trusted base) and NOTES_model.md.
"""
from __future__ import annotations
import ast, os, sys
sys.path.insert(0, os.path.dirname(os.path.abspath(__file__)))
import py2lean as P

Unsupported = P.Unsupported

SRC = 'maltoolbox/model.py'
MODULES = {
    'Attachment': (SRC, [('AttackerAttachment', 'get_entry_point_tuple'), ('AttackerAttachment', 'add_entry_point'),
                         ('AttackerAttachment', 'remove_entry_point')]),
    'Lookup': (SRC, [('Model', 'get_asset_by_id'), ('Model', 'get_asset_by_name'), ('Model', 'get_attacker_by_id'),
                     ('Model', 'get_association_field_names'), ('Model', 'association_exists_between_assets'),
                     ('Model', 'get_associated_assets_by_field_name')]),
    'Assets': (SRC, [('Model', 'add_asset'), ('Model', 'add_attacker'), ('Model', 'remove_attacker')]),
    'Assoc': (SRC, [('Model', '_validate_association'), ('Model', 'add_association'), ('Model', 'remove_association'),
                    ('Model', 'remove_asset_from_association'), ('Model', 'remove_asset')]),
}
MODULE_ORDER = ['Attachment', 'Lookup', 'Assets', 'Assoc']
IMPORTS = {'Attachment': [], 'Lookup': [], 'Assets': [], 'Assoc': ['Attachment', 'Lookup']}

TIE = {
    'order': 20,
    'gen_dir': 'MalVerif/Py/GenModel',
    'gen_modules': MODULE_ORDER,
    'chain': ['MalVerif.Py.AbsModel', 'MalVerif.Py.TieModelAssets', 'MalVerif.Py.TieModelAssoc',
              'MalVerif.Py.TieModelRemove', 'MalVerif.Py.TieModelRemoveAsset', 'MalVerif.Py.TieModelAttach',
              'MalVerif.Py.TieModelStep', 'MalVerif.PropsGen.C05'],
    'needs': {'C05': ['MalVerif.Py.TieModelAssets', 'MalVerif.Py.TieModelAssoc', 'MalVerif.Py.TieModelRemove',
                      'MalVerif.Py.TieModelRemoveAsset', 'MalVerif.Py.TieModelAttach', 'MalVerif.Py.TieModelStep',
                      'MalVerif.PropsGen.C05']},
    'sources': {'C05': 'model.py: Model.add_asset, remove_asset, remove_asset_from_association, _validate_association, '
                       'add_association, remove_association, add_attacker, remove_attacker, get_asset_by_id, '
                       'get_asset_by_name, get_attacker_by_id, association_exists_between_assets, '
                       'get_association_field_names, get_associated_assets_by_field_name; AttackerAttachment.'
                       'get_entry_point_tuple, add_entry_point, remove_entry_point (pjs value equality and the bound of '
                       '`while` loops are parameters: ModelEnv)'},
}

# ------------------------------------------------------------------ typing of model.py
CLASS_TYPE = {'Model': 'graph', 'AttackerAttachment': 'tatt'}
PREFIX = {'graph': 'model_', 'tatt': 'attachment_', None: ''}
# parameters annotated `SchemaGeneratedClass` (pjs objects are dynamically typed): typed by their name
OBJ_PARAM = {'asset': 'asset', 'left_asset': 'asset', 'right_asset': 'asset', 'association': 'assoc'}
# functions without a return annotation that return a value
RET = {'association_exists_between_assets': 'bool', 'get_association_field_names': ('tuple', 'str', 'str'),
       'get_associated_assets_by_field_name': ('list', 'asset')}
OBJ_RET = {'get_asset_by_id': 'asset', 'get_asset_by_name': 'asset'}
ATTRS = {
    'graph': {'name': 'str', 'assets': ('list', 'asset'), 'associations': ('list', 'assoc'),
              '_type_to_association': ('dict', 'str', ('list', 'assoc')), 'attackers': ('list', 'tatt'),
              'asset_ids': ('set', 'int'), 'asset_names': ('set', 'str'), 'next_id': 'int'},
    'asset': {'id': ('opt', 'int'), 'name': ('opt', 'str'), 'type': 'str', 'extras': ('opt', 'json'),
              'associations': ('list', 'assoc')},
    'assoc': {'extras': ('opt', 'json')},
    'tatt': {'id': ('opt', 'int'), 'name': ('opt', 'str'), 'entry_points': ('list', 'ep')},
}
# attributes whose presence is tested with hasattr: stored as Option, read through attrInt / attrStr
PRESENCE = {('asset', 'id'): 'attrInt', ('asset', 'name'): 'attrStr', ('asset', 'extras'): 'attrStr',
            ('assoc', 'extras'): 'attrStr'}
STORE = {'asset': 'a', 'assoc': 'l', 'tatt': 't', 'ep': 'e'}
SETTER = {'asset': 'setA', 'assoc': 'setL', 'tatt': 'setT', 'ep': 'setE'}
EQ = {'asset': 'eqAsset', 'assoc': 'eqAssoc', 'tatt': 'eqAtt', 'ep': 'eqEp'}
EXC = {'LookupError': 'PyErr.lookupError', 'ValueError': 'PyErr.valueError', 'KeyError': 'PyErr.keyError',
       'DuplicateModelAssociationError': 'PyErr.duplicateModelAssociationError',
       'ModelAssociationException': 'PyErr.modelAssociationException', 'AssertionError': 'PyErr.assertionError'}
FIELD = '<field>'      # pseudo attribute: the list behind a field handle
STEPS = '<steps>'      # pseudo attribute: the list inside an entry-point tuple

def lean_type(t):
    simple = {'asset': 'ARef', 'assoc': 'LRef', 'tatt': 'TRef', 'ep': 'ERef', 'floc': 'FieldLoc', 'bool': 'Bool',
              'int': 'Int', 'str': 'String', 'json': 'String', 'env': 'ModelEnv'}
    if isinstance(t, str) and t in simple: return simple[t]
    if isinstance(t, tuple) and t[0] == 'tuple': return '(' + ' × '.join(lean_type(x) for x in t[1:]) + ')'
    if isinstance(t, tuple) and t[0] == 'opt': return f'(Option {lean_type(t[1])})'
    if isinstance(t, tuple) and t[0] in ('list', 'set'): return f'(List {lean_type(t[1])})'
    if isinstance(t, tuple) and t[0] == 'dict': return f'(List ({lean_type(t[1])} × {lean_type(t[2])}))'
    raise Unsupported(f'type {t}')

def ann_type(a, pname=None, fname=None):
    if a is None: raise Unsupported(f'missing annotation of {pname or fname}')
    src = ast.unparse(a).replace(' ', '')
    table = {'bool': 'bool', 'int': 'int', 'str': 'str', 'None': 'none', 'Optional[int]': ('opt', 'int'),
             'AttackerAttachment': 'tatt', 'Optional[AttackerAttachment]': ('opt', 'tatt'),
             'Optional[tuple[SchemaGeneratedClass,list[str]]]': ('opt', 'ep')}
    if src in table: return table[src]
    if src == 'SchemaGeneratedClass' and pname in OBJ_PARAM: return OBJ_PARAM[pname]
    if src == 'Optional[SchemaGeneratedClass]' and fname in OBJ_RET: return ('opt', OBJ_RET[fname])
    if src == 'list[SchemaGeneratedClass]' and fname in RET: return RET[fname]
    raise Unsupported(f'annotation {src} of {pname or fname}')

class MFn(P.Fn):
    def __init__(self, module, cls, node, slice_name=None):
        if slice_name: raise Unsupported('slices')
        self.module, self.cls, self.node, self.slice = module, cls, node, None
        self.pyname = node.name
        self.selftype = CLASS_TYPE[cls]
        self.lean = PREFIX[self.selftype] + node.name
        self.is_property = False
        if node.decorator_list: raise Unsupported(f'decorator on {node.name}')
        a = node.args
        if a.vararg or a.kwarg or a.kwonlyargs or a.posonlyargs: raise Unsupported(f'parameter list of {node.name}')
        self.params = []
        for i, p in enumerate(a.args):
            self.params.append((p.arg, self.selftype if i == 0 else ann_type(p.annotation, pname=p.arg)))
        if node.returns is not None: self.ret = ann_type(node.returns, fname=node.name)
        else: self.ret = RET.get(node.name, 'none')
        self.takes_env = True
        self.takes_s = True
        self.calls = set(); self.mutates = False; self.raises = False; self.recursive = False
        self.mut_attrs = set()

def floc_names(fnode):
    """locals that hold field handles: assigned from getattr(..), or loop variables over a list of such names"""
    names = set()
    for n in ast.walk(fnode):
        if isinstance(n, ast.Assign) and len(n.targets) == 1 and isinstance(n.targets[0], ast.Name) and \
                isinstance(n.value, ast.Call) and isinstance(n.value.func, ast.Name) and n.value.func.id == 'getattr':
            names.add(n.targets[0].id)
    changed = True
    while changed:
        changed = False
        for n in ast.walk(fnode):
            if isinstance(n, ast.For) and isinstance(n.target, ast.Name) and isinstance(n.iter, (ast.List, ast.Tuple)) \
                    and n.iter.elts and all(isinstance(x, ast.Name) and x.id in names for x in n.iter.elts) \
                    and n.target.id not in names:
                names.add(n.target.id); changed = True
    return names

class MEffects(P.Effects):
    """adds the mutation forms of model.py to the effect analysis of the base translator"""
    def __init__(self, fn, by_name, env=None):
        super().__init__(fn, by_name, env)
        self.flocs = getattr(fn, 'flocs', set())
    def visit_Subscript(self, n):
        if isinstance(n.ctx, ast.Load) and isinstance(n.value, ast.Attribute) and n.value.attr == '_type_to_association':
            self.fn.raises = True        # d[k]: KeyError
        self.generic_visit(n)
    def visit_Call(self, n):
        if P.is_logger_call(n): return
        f = n.func
        if isinstance(f, ast.Name) and f.id == 'getattr': self.fn.raises = True
        if isinstance(f, ast.Attribute):
            m, tgt = f.attr, f.value
            if m in ('append', 'remove', 'extend', 'insert', 'pop', 'clear', 'sort', 'reverse'):
                if isinstance(tgt, ast.Name) and tgt.id in self.flocs:
                    self.fn.mutates = True; self.fn.mut_attrs.add(FIELD)
                    if m == 'remove': self.fn.raises = True
                elif isinstance(tgt, ast.Subscript) and isinstance(tgt.value, ast.Attribute):
                    self.fn.mutates = True; self.fn.mut_attrs.add(tgt.value.attr); self.fn.raises = True
                elif isinstance(tgt, ast.Subscript):
                    self.fn.mutates = True; self.fn.mut_attrs.add(STEPS)
                    if m == 'remove': self.fn.raises = True
                elif isinstance(tgt, ast.Call) and isinstance(tgt.func, ast.Attribute) and tgt.func.attr == 'setdefault' \
                        and isinstance(tgt.func.value, ast.Attribute):
                    self.fn.mutates = True; self.fn.mut_attrs.add(tgt.func.value.attr)
                elif isinstance(tgt, ast.Name) and m == 'remove':
                    self.fn.raises = True
            if m in ('add', 'discard') and isinstance(tgt, ast.Attribute):
                self.fn.mutates = True; self.fn.mut_attrs.add(tgt.attr)
        super().visit_Call(n)

def body_muts(tr, stmts):
    """(attributes the statements may mutate, transitively; whether they mutate the heap at all)"""
    probe = P.Fn.__new__(P.Fn); probe.calls = set(); probe.mutates = probe.raises = False; probe.mut_attrs = set()
    probe.flocs = {k for k, v in tr.locals.items() if v == 'floc'}
    by_name = {}
    for f in tr.fns.values(): by_name.setdefault(f.pyname, []).append(f)
    ef = MEffects(probe, by_name, {k: v for k, v in tr.locals.items() if isinstance(v, str)})
    for b in stmts: ef.visit(b)
    muts = set(probe.mut_attrs); mutates = probe.mutates
    for c in probe.calls:
        muts |= tr.fns[c].mut_attrs; mutates = mutates or tr.fns[c].mutates
    return muts, mutates

def is_obj_list(t): return isinstance(t, tuple) and t[0] == 'list' and t[1] in EQ

class MTr(P.Tr):
    DEFAULTS = dict(P.Tr.DEFAULTS, asset='0', assoc='0', tatt='0', ep='0', floc='(0, false)', json='"{}"')

    def eqf(self, t): return f'({EQ[t]} env s)'

    def truthy(self, lean, t):
        if t == ('opt', 'str'): return f'(truthyOptStr {lean})'
        if isinstance(t, tuple) and t[0] == 'opt' and t[1] in EQ: return f'({lean}).isSome'
        if isinstance(t, tuple) and t[0] == 'set': return f'!({lean}).isEmpty'
        if t == 'floc': return f'!(s.rd {lean}).isEmpty'
        if t in EQ: return 'true'
        return super().truthy(lean, t)

    def as_list(self, x, t):
        """a Python iterable as a Lean list"""
        if t == 'floc': return f'(s.rd {x})', ('list', 'asset')
        if isinstance(t, tuple) and t[0] == 'tuple' and len(set(t[1:])) == 1 and len(t) == 3:
            return f'[({x}).1, ({x}).2]', ('list', t[1])
        if isinstance(t, tuple) and t[0] == 'set': return x, ('list', t[1])
        return x, t

    @staticmethod
    def wrap_iter(g):
        return ast.comprehension(target=g.target, iter=ast.Call(func=ast.Name(id='__aslist__', ctx=ast.Load()),
                                 args=[g.iter], keywords=[]), ifs=g.ifs, is_async=g.is_async)

    # ---- expressions
    def expr(self, e):
        key = ast.dump(e)
        if key in self.narrow: return self.narrow[key]
        if isinstance(e, ast.Attribute):
            # association.__class__.__name__
            if e.attr == '__name__' and isinstance(e.value, ast.Attribute) and e.value.attr == '__class__':
                base, bt = self.expr(e.value.value)
                if bt == 'assoc': return f'(s.l {base}).cls', 'str'
                raise Unsupported(f'__class__.__name__ of {bt}')
            base, bt = self.expr(e.value)
            if bt == 'graph':
                if e.attr in ATTRS['graph']: return f's.{e.attr}', ATTRS['graph'][e.attr]
                raise Unsupported(f'Model attribute {e.attr}')
            if bt in STORE and e.attr in ATTRS.get(bt, {}):
                raw = f'(s.{STORE[bt]} {base}).{e.attr}'
                if (bt, e.attr) in PRESENCE:
                    return f'({PRESENCE[(bt, e.attr)]} {raw})', ATTRS[bt][e.attr][1]
                return raw, ATTRS[bt][e.attr]
            raise Unsupported(f'attribute {e.attr} of {bt}')
        if isinstance(e, ast.Subscript):
            base, bt = self.expr(e.value)
            if bt == 'ep' and isinstance(e.slice, ast.Constant) and e.slice.value in (0, 1) and e.slice.value is not True \
                    and e.slice.value is not False:
                return (f'(s.e {base}).asset', 'asset') if e.slice.value == 0 else (f'(s.e {base}).steps', ('list', 'str'))
            if isinstance(bt, tuple) and bt[0] == 'dict':
                k, kt = self.expr(e.slice)
                if kt != bt[1]: raise Unsupported('dict key type')
                if not self.monadic: raise Unsupported('d[k] in a function that cannot raise')
                return f'(← dictGetE {base} {k})', bt[2]
            raise Unsupported(f'subscript on {bt}')
        if isinstance(e, ast.Dict):
            if e.keys: raise Unsupported('non-empty dict literal')
            return '"{}"', 'json'
        if isinstance(e, ast.ListComp):
            return super().expr(ast.ListComp(elt=e.elt, generators=[self.wrap_iter(g) for g in e.generators]))
        if isinstance(e, ast.SetComp):
            x, t = super().expr(ast.ListComp(elt=e.elt, generators=[self.wrap_iter(g) for g in e.generators]))
            if t[1] not in ('str', 'int'): raise Unsupported(f'set of {t[1]}')
            return f'(pySetOf {x})', ('set', t[1])
        return super().expr(e)

    def compare(self, e):
        if len(e.ops) == 1 and not (isinstance(e.comparators[0], ast.Constant) and e.comparators[0].value is None):
            op, rhs = e.ops[0], e.comparators[0]
            l, lt = self.expr(e.left); r, rt = self.expr(rhs)
            if isinstance(op, (ast.In, ast.NotIn)):
                res = None
                if rt == 'floc': r, rt = self.as_list(r, rt)
                if is_obj_list(rt):
                    if lt != rt[1]: raise Unsupported(f'membership {lt} in {rt}')
                    res = f'(pyIn {self.eqf(lt)} {r} {l})'
                elif isinstance(rt, tuple) and rt[0] in ('set', 'list') and rt[1] in ('str', 'int'):
                    if lt != rt[1]: raise Unsupported(f'membership {lt} in {rt}')
                    res = f'(({r}).contains {l})'
                if res is None: raise Unsupported(f'membership in {rt}')
                return (res if isinstance(op, ast.In) else f'!{res}'), 'bool'
            if isinstance(op, (ast.Is, ast.IsNot)):
                # identity of two objects: equality of the references
                if lt != rt or lt not in EQ: raise Unsupported(f'`is` between {lt} and {rt}')
                return (f'({l} == {r})' if isinstance(op, ast.Is) else f'({l} != {r})'), 'bool'
            if isinstance(op, (ast.Eq, ast.NotEq)):
                res = None
                if lt == rt and lt in EQ: res = f'({EQ[lt]} env s {l} {r})'
                elif lt == ('opt', 'int') and rt == 'int': res = f'({l} == some {r})'
                elif lt == ('opt', 'str') and rt == 'str': res = f'({l} == some {r})'
                elif lt == rt and lt in ('str', 'int', 'bool'): res = f'({l} == {r})'
                if res is None: raise Unsupported(f'== between {lt} and {rt}')
                return (res if isinstance(op, ast.Eq) else f'!{res}'), 'bool'
        return super().compare(e)

    def call(self, e):
        f = e.func
        if isinstance(f, ast.Name) and not e.keywords:
            n = f.id
            if n == '__aslist__':
                x, t = self.expr(e.args[0]); return self.as_list(x, t)
            if n == 'hasattr' and len(e.args) == 2 and isinstance(e.args[1], ast.Constant):
                x, t = self.expr(e.args[0]); a = e.args[1].value
                if (t, a) in PRESENCE: return f'((s.{STORE[t]} {x}).{a}).isSome', 'bool'
                if t in ATTRS and a in ATTRS[t]: return 'true', 'bool'
                raise Unsupported(f'hasattr({t}, {a!r})')
            if n == 'getattr' and len(e.args) == 2:
                x, t = self.expr(e.args[0]); k, kt = self.expr(e.args[1])
                if t != 'assoc' or kt != 'str': raise Unsupported(f'getattr({t}, {kt})')
                if not self.monadic: raise Unsupported('getattr in a function that cannot raise')
                return f'(← pyGetattr s {x} {k})', 'floc'
            if n == 'len' and len(e.args) == 1:
                x, t = self.expr(e.args[0])
                if t == 'floc' or (isinstance(t, tuple) and t[0] == 'set'):
                    x, t = self.as_list(x, t); return f'(({x}).length : Int)', 'int'
            if n == 'list' and len(e.args) == 1:
                x, t = self.expr(e.args[0])
                if t == 'floc': return self.as_list(x, t)
            if n == 'any' and len(e.args) == 1 and isinstance(e.args[0], ast.GeneratorExp):
                # any(cond for v in L): some element satisfies cond
                x, t = self.expr(ast.ListComp(elt=e.args[0].elt, generators=e.args[0].generators))
                if t != ('list', 'bool'): raise Unsupported('any() over non-bool')
                return f'({x}.any id)', 'bool'
            if n == 'next' and len(e.args) == 2 and isinstance(e.args[0], ast.GeneratorExp):
                ge = e.args[0]
                e = ast.Call(func=f, args=[ast.GeneratorExp(elt=ge.elt, generators=[self.wrap_iter(g) for g in ge.generators]),
                                           e.args[1]], keywords=[])
                return super().call(e)
        if isinstance(f, ast.Attribute) and not e.keywords:
            if f.attr == 'keys' and not e.args and isinstance(f.value, ast.Attribute) and f.value.attr == '_properties':
                x, t = self.expr(f.value.value)
                if t != 'assoc': raise Unsupported(f'_properties of {t}')
                return f'(assocFieldNames (s.l {x}))', ('tuple', 'str', 'str')
            if f.attr == 'get' and len(e.args) == 2:
                d, dt = self.expr(f.value)
                if isinstance(dt, tuple) and dt[0] == 'dict':
                    k, kt = self.expr(e.args[0]); v, vt = self.expr(e.args[1])
                    if kt != dt[1] or not (vt == dt[2] or (vt == ('list', '?') and dt[2][0] == 'list')):
                        raise Unsupported('types of d.get(k, default)')
                    return f'(dictGetD {d} {k} {v})', dt[2]
        return super().call(e)

    # ---- heap writes
    def write_attr(self, ind, target, value_lean):
        base, bt = self.expr(target.value)
        if bt == 'graph':
            self.emit(ind, f's := {{ s with {target.attr} := {value_lean} }}')
        elif bt in STORE and target.attr in ATTRS.get(bt, {}):
            self.emit(ind, f's := s.{SETTER[bt]} {base} {{ s.{STORE[bt]} {base} with {target.attr} := {value_lean} }}')
        else:
            raise Unsupported(f'assignment to attribute {target.attr} of {bt}')

    def coerce(self, x, t, want):
        if isinstance(want, tuple) and want[0] == 'opt' and want[1] == 'json' and t == 'json': return f'(some {x})'
        return super().coerce(x, t, want)

    def remove_from(self, ind, l, lt, x, xt):
        """emit `tmp ← l.remove(x)`, return tmp"""
        if lt[1] != xt: raise Unsupported(f'remove of {xt} from {lt}')
        tmp = self.fresh('l')
        if xt in EQ: self.emit(ind, f'let {tmp} ← pyRemoveBy {self.eqf(xt)} {l} {x}')
        elif xt in ('str', 'int'): self.emit(ind, f'let {tmp} ← pyRemove {l} {x}')
        else: raise Unsupported(f'remove of {xt}')
        return tmp

    # ---- statements
    def stmt(self, ind, st):
        if isinstance(st, ast.Expr) and isinstance(st.value, ast.Call) and not P.is_logger_call(st.value) \
                and isinstance(st.value.func, ast.Attribute):
            v = st.value; m = v.func.attr; tgt = v.func.value
            if v.keywords: raise Unsupported('keyword arguments')
            if m in ('append', 'remove') and len(v.args) == 1:
                # d.setdefault(k, []).append(x)
                if m == 'append' and isinstance(tgt, ast.Call) and isinstance(tgt.func, ast.Attribute) and \
                        tgt.func.attr == 'setdefault' and len(tgt.args) == 2 and isinstance(tgt.args[1], ast.List) \
                        and not tgt.args[1].elts and isinstance(tgt.func.value, ast.Attribute) and not tgt.keywords:
                    d, dt = self.expr(tgt.func.value); k, kt = self.expr(tgt.args[0]); x, xt = self.expr(v.args[0])
                    if not (isinstance(dt, tuple) and dt[0] == 'dict' and kt == dt[1] and dt[2] == ('list', xt)):
                        raise Unsupported('types of d.setdefault(k, []).append(x)')
                    self.write_attr(ind, tgt.func.value, f'dictSetDefaultAppend {d} {k} {x}')
                    return
                # allocation of an entry-point tuple: l.append((asset, [step]))
                if m == 'append' and isinstance(v.args[0], ast.Tuple) and isinstance(tgt, ast.Attribute):
                    l, lt = self.expr(tgt)
                    tup = v.args[0]
                    if lt == ('list', 'ep') and len(tup.elts) == 2:
                        a, at = self.expr(tup.elts[0]); b, bt = self.expr(tup.elts[1])
                        if at != 'asset' or bt != ('list', 'str'): raise Unsupported('entry-point tuple components')
                        tmp = self.fresh('r')
                        self.emit(ind, f'let {tmp} := s.allocE {{ asset := {a}, steps := {b} }}')
                        self.emit(ind, f's := {tmp}.1')
                        l, lt = self.expr(tgt)
                        self.write_attr(ind, tgt, f'({l} ++ [{tmp}.2])')
                        return
                    raise Unsupported('append of a tuple')
                l, lt = self.expr(tgt)
                x, xt = self.expr(v.args[0])
                # a field handle
                if lt == 'floc':
                    if not isinstance(tgt, ast.Name): raise Unsupported('mutation through getattr(...) directly')
                    if xt != 'asset': raise Unsupported(f'{m} of {xt} through a field handle')
                    if m == 'remove':
                        tmp = self.remove_from(ind, f'(s.rd {l})', ('list', 'asset'), x, xt)
                        self.emit(ind, f's := s.wr {l} {tmp}')
                    else:
                        self.emit(ind, f's := s.wr {l} ((s.rd {l}) ++ [{x}])')
                    return
                if isinstance(lt, tuple) and lt[0] == 'list':
                    if lt[1] == '?' and isinstance(tgt, ast.Name):
                        lt = ('list', xt); self.locals[tgt.id] = lt
                    if xt != lt[1]: raise Unsupported(f'{m} of {xt} to {lt}')
                    # the list inside an entry-point tuple, the list stored in a dict
                    if isinstance(tgt, ast.Subscript):
                        base, bt = self.expr(tgt.value)
                        new = f'({l} ++ [{x}])' if m == 'append' else self.remove_from(ind, l, lt, x, xt)
                        if bt == 'ep':
                            self.emit(ind, f's := s.setE {base} {{ s.e {base} with steps := {new} }}')
                            return
                        if isinstance(bt, tuple) and bt[0] == 'dict' and isinstance(tgt.value, ast.Attribute):
                            k, _ = self.expr(tgt.slice)
                            d, _ = self.expr(tgt.value)
                            self.write_attr(ind, tgt.value, f'dictSet {d} {k} {new}')
                            return
                        raise Unsupported(f'{m} on a subscript of {bt}')
                    if m == 'remove':
                        new = self.remove_from(ind, l, lt, x, xt)
                        if isinstance(tgt, ast.Name): self.emit(ind, f'{P.esc(tgt.id)} := {new}')
                        elif isinstance(tgt, ast.Attribute): self.write_attr(ind, tgt, new)
                        else: raise Unsupported('remove target')
                        return
                    return super().stmt(ind, st)
                raise Unsupported(f'{m} on {lt}')
            if m in ('add', 'discard') and len(v.args) == 1 and isinstance(tgt, ast.Attribute):
                l, lt = self.expr(tgt); x, xt = self.expr(v.args[0])
                if not (isinstance(lt, tuple) and lt[0] == 'set' and lt[1] == xt): raise Unsupported(f'{m} of {xt} on {lt}')
                self.write_attr(ind, tgt, f'{"pySetAdd" if m == "add" else "pySetDiscard"} {l} {x}')
                return
            if m == 'extend' and len(v.args) == 1 and isinstance(tgt, ast.Name):
                l, lt = self.expr(tgt); x, xt = self.expr(v.args[0])
                x, xt = self.as_list(x, xt)
                if isinstance(lt, tuple) and lt[0] == 'list' and isinstance(xt, tuple) and xt[0] == 'list':
                    if lt[1] == '?': lt = xt; self.locals[tgt.id] = lt
                    if xt != lt: raise Unsupported(f'extend of {xt} to {lt}')
                    self.emit(ind, f'{P.esc(tgt.id)} := ({l} ++ {x})')
                    return
                raise Unsupported('extend')
        if isinstance(st, ast.Assign) and len(st.targets) == 1 and isinstance(st.targets[0], ast.Name) \
                and self.fn.mutates and self.is_heap_list_alias(st.value):
            raise Unsupported(f'local {st.targets[0].id} aliases a heap list in a function that mutates the heap '
                              f'(copy it with list(...))')
        if isinstance(st, ast.While):
            # idiom on a local list: while x in L: L.remove(x)
            t = st.test
            if isinstance(t, ast.Compare) and len(t.ops) == 1 and isinstance(t.ops[0], ast.In) and len(st.body) == 1 \
                    and not st.orelse and isinstance(st.body[0], ast.Expr) and isinstance(st.body[0].value, ast.Call):
                c = st.body[0].value
                if isinstance(c.func, ast.Attribute) and c.func.attr == 'remove' and len(c.args) == 1 and \
                        ast.dump(c.func.value) == ast.dump(t.comparators[0]) and ast.dump(c.args[0]) == ast.dump(t.left) \
                        and isinstance(c.func.value, ast.Name):
                    l, lt = self.expr(c.func.value); x, xt = self.expr(t.left)
                    if is_obj_list(lt) and lt[1] == xt:
                        self.emit(ind, f'{P.esc(c.func.value.id)} := pyRemoveAllBy {self.eqf(xt)} {l} {x}')
                        return
            if st.orelse: raise Unsupported('while/else')
            return super().stmt(ind, st)
        if isinstance(st, ast.For):
            return self.for_stmt(ind, st)
        return super().stmt(ind, st)

    def is_heap_list_alias(self, v):
        """does the expression evaluate to a list object that lives in the heap (not a copy)?"""
        if isinstance(v, ast.Call) and isinstance(v.func, ast.Name) and v.func.id == 'getattr': return False  # a handle
        if isinstance(v, (ast.Attribute, ast.Subscript)) or \
                (isinstance(v, ast.Call) and isinstance(v.func, ast.Attribute) and v.func.attr in ('get', 'setdefault')):
            try:
                saved = list(self.lines); _, t = self.expr(v); self.lines = saved
            except Unsupported:
                return False
            return isinstance(t, tuple) and t[0] in ('list', 'set', 'dict')
        return False

    def for_stmt(self, ind, st):
        if st.orelse or not isinstance(st.target, ast.Name): raise Unsupported('for shape')
        src = st.iter
        it, itt = self.expr(src)
        muts, mutates = body_muts(self, st.body)
        if itt == 'floc':
            if FIELD in muts: raise Unsupported('loop over the list of an association field whose body may mutate a field')
        elif isinstance(src, ast.Attribute):
            if src.attr in muts: raise Unsupported(f'loop over live list .{src.attr} whose body may mutate .{src.attr}')
        elif isinstance(src, (ast.Tuple, ast.List)):
            pass
        elif isinstance(src, ast.Call) and isinstance(src.func, ast.Name) and src.func.id == 'list' and len(src.args) == 1:
            pass                                                    # a copy
        elif isinstance(src, ast.Name) and isinstance(itt, tuple) and itt[0] == 'tuple':
            pass                                                    # immutable
        elif isinstance(src, ast.Name) and self.local_is_copy.get(src.id):
            pass
        else:
            if mutates: raise Unsupported(f'loop over `{ast.unparse(src)}` (may alias a heap list) whose body mutates the heap')
        if isinstance(src, ast.Tuple):
            ts = set(itt[1:])
            if len(ts) != 1: raise Unsupported('heterogeneous tuple')
            parts = self.tuple_parts[it]
            it, itt = '[' + ', '.join(x for x, _ in parts) + ']', ('list', ts.pop())
        it, itt = self.as_list(it, itt)
        if not (isinstance(itt, tuple) and itt[0] == 'list'): raise Unsupported(f'iteration over {itt}')
        v = st.target.id
        saved = self.locals.get(v)
        self.locals[v] = itt[1]
        self.emit(ind, f'for {P.esc(v)} in {it} do')
        self.body(ind + 1, st.body)
        if saved is None: del self.locals[v]
        else: self.locals[v] = saved

    def _translate(self):
        # locals assigned from list(...) are copies
        self.local_is_copy = {}
        for n in ast.walk(self.fn.node):
            if isinstance(n, ast.Assign) and len(n.targets) == 1 and isinstance(n.targets[0], ast.Name):
                cp = isinstance(n.value, ast.Call) and isinstance(n.value.func, ast.Name) and n.value.func.id == 'list'
                cp = cp or isinstance(n.value, (ast.List, ast.ListComp))
                nm = n.targets[0].id
                self.local_is_copy[nm] = cp and self.local_is_copy.get(nm, True)
        return super()._translate().replace('(env : EvalEnv)', '(env : ModelEnv)')

HEADER = '''/- GENERATED by translators/py2lean_model.py from {path} — do not edit.
   Regenerated and compared on every run of the checks; see MalVerif/Py/PreludeModel.lean for the conventions. -/
{imports}
set_option linter.unusedVariables false
namespace MalVerif.PyM.Gen
open MalVerif.PyM

'''

SWAP = {'MODULES': MODULES, 'MODULE_ORDER': MODULE_ORDER, 'IMPORTS': IMPORTS, 'CLASS_TYPE': CLASS_TYPE, 'PREFIX': PREFIX,
        'ATTRS': ATTRS, 'STORE': STORE, 'SETTER': SETTER, 'EXC': EXC, 'lean_type': lean_type, 'Fn': MFn, 'Tr': MTr,
        'Effects': MEffects, 'ENV_METHODS': {}, 'PROPERTIES': set(), 'SLICES': {}}

def generate(repo, modules=None) -> dict[str, str]:
    saved = {k: getattr(P, k) for k in SWAP}
    for k, v in SWAP.items(): setattr(P, k, v)
    try:
        order = P.closure(modules) if modules else MODULE_ORDER
        fns, by_method = P.collect(repo, order)
        for f in fns.values(): f.flocs = floc_names(f.node)
        P.analyse(fns)
        out = {}
        for mod in order:
            path, sel = MODULES[mod]
            imports = 'import MalVerif.Py.PreludeModel\n' + ''.join(f'import MalVerif.Py.GenModel.{m}\n' for m in IMPORTS[mod])
            txt = HEADER.format(path=path, imports=imports.rstrip())
            for cls, name in sel:
                f = by_method[(CLASS_TYPE[cls], name)]
                txt += MTr(f, fns, by_method).translate() + '\n'
            txt += 'end MalVerif.PyM.Gen\n'
            out[mod] = txt
        return out
    finally:
        for k, v in saved.items(): setattr(P, k, v)

def main(argv):
    repo = argv[1]
    try:
        out = generate(repo)
    except Unsupported as e:
        print(f'UNSUPPORTED: {e}')
        return 3
    if argv[2] == '--check':
        bad = [m for m, t in out.items() if not os.path.exists(os.path.join(argv[3], m + '.lean'))
               or open(os.path.join(argv[3], m + '.lean'), encoding='utf-8').read() != t]
        print('changed: ' + ' '.join(bad) if bad else 'unchanged')
        return 1 if bad else 0
    os.makedirs(argv[2], exist_ok=True)
    for m, t in out.items():
        with open(os.path.join(argv[2], m + '.lean'), 'w', encoding='utf-8') as fh: fh.write(t)
    return 0

if __name__ == '__main__':
    sys.exit(main(sys.argv))
