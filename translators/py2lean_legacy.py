#!/usr/bin/env python3
"""py2lean_legacy — translate the legacy model loaders to Lean 4 (domain `legacy`, C18).

    py2lean_legacy.py <repo> <outdir>      writes <outdir>/<Module>.lean for every entry of MODULES
    py2lean_legacy.py <repo> --check <dir> exit 0 iff regenerated text == files in <dir>

Sources: maltoolbox/translators/updater.py (load_model_from_older_version, load_model_from_version_0_0_39 with its
inner functions) and maltoolbox/translators/securicad.py (load_model_from_scad_archive).

Same discipline as translators/py2lean.py: one Python statement becomes one `do` statement (a few `let`s for a
constructor call), every expression is translated by its syntactic form, `raise` is `throw`, anything not
recognised raises `Unsupported` — nothing is guessed.  The loaders work on three kinds of values:

  * JSON / YAML documents (dynamically typed)    -> `PyJ` and the accessors of MalVerif/Py/PreludeLegacy.lean
    (`d[k]` jIndex, `d.get(k, x)` jGetD, `k in d` jContains, `d.pop(k)` jPop, `d.items()` jItems, `for x in d` jIter,
    `isinstance(x, dict|list)`, `int(x)` jInt, `float(x)` jFloat, f-strings jFormat); all of them raise in `Except LErr`;
  * the parsed securiCAD archive                 -> `Legacy.ScadDoc` (table XML below; zipfile / xml.etree are the boundary);
  * the model under construction                 -> the heap `s : PyM.H` of the `model` domain; calls of `Model` /
    `AttackerAttachment` methods become calls of the GENERATED functions of MalVerif/Py/GenModel (their Lean
    signatures are read from the output of py2lean_model.generate on the same repo, parameter names and defaults from
    the `def` in model.py, so keyword arguments and defaults follow the source); constructors of generated classes
    (`getattr(ns, name)(name=..)`, `getattr(ns, name)()`), `setattr` on pjs objects, `AttackerAttachment(..)`, `Model(..)`
    are the trusted functions of the prelude.

A conditional expression becomes `(<- if c then (do pure a) else (do pure b))`: a raising sub-expression of a branch is
only evaluated when the branch is taken.  Other raising sub-expressions `(<- e)` are evaluated before the statement
they occur in, left to right (as Python does); the translator refuses them under `and` / `or`.
Dropped (only that): docstrings, `logger.*` calls (an `if logger.isEnabledFor(..)` whose body only logs), exception
messages, a `return` that directly follows a `raise`.
"""
from __future__ import annotations
import ast, os, re, sys
sys.path.insert(0, os.path.dirname(os.path.abspath(__file__)))
import py2lean as P
import py2lean_model as PM

Unsupported = P.Unsupported
esc = P.esc

UPD = 'maltoolbox/translators/updater.py'
SCAD = 'maltoolbox/translators/securicad.py'
# module -> (source, [(path of nested function names, lean name)])
MODULES = {
    'Updater': (UPD, [(('load_model_from_version_0_0_39', '_process_model'), 'updater_process_model'),
                      (('load_model_from_version_0_0_39', 'load_from_json'), 'updater_load_from_json'),
                      (('load_model_from_version_0_0_39', 'load_from_yaml'), 'updater_load_from_yaml'),
                      (('load_model_from_version_0_0_39',), 'updater_load_model_from_version_0_0_39'),
                      (('load_model_from_older_version',), 'updater_load_model_from_older_version')]),
    'Securicad': (SCAD, [(('load_model_from_scad_archive',), 'securicad_load_model_from_scad_archive')]),
}
MODULE_ORDER = ['Updater', 'Securicad']

TIE = {
    'order': 30,
    'gen_dir': 'MalVerif/Py/GenLegacy',
    'gen_modules': MODULE_ORDER,
    'chain': ['MalVerif.Py.AbsLegacy', 'MalVerif.Py.TieLegacyBase', 'MalVerif.Py.TieLegacyOldCore',
              'MalVerif.Py.TieLegacyOldAssets', 'MalVerif.Py.TieLegacyOldAssoc', 'MalVerif.Py.TieLegacyOldAtt',
              'MalVerif.Py.TieLegacyOld', 'MalVerif.Py.TieLegacyScad', 'MalVerif.Py.TieLegacyScadEmit',
              'MalVerif.Py.TieLegacyWf', 'MalVerif.Py.TieLegacyScadAgree', 'MalVerif.PropsGen.C18'],
    'needs': {'C18': ['MalVerif.Py.TieLegacyBase', 'MalVerif.Py.TieLegacyOld', 'MalVerif.Py.TieLegacyScad',
                      'MalVerif.Py.TieLegacyScadAgree', 'MalVerif.PropsGen.C18']},
    'sources': {'C18': 'translators/updater.py: load_model_from_older_version, load_model_from_version_0_0_39 '
                       '(_process_model, load_from_json, load_from_yaml); translators/securicad.py: '
                       'load_model_from_scad_archive (after the zip / XML parsing); they call the translated '
                       'model.py (domain model); pjs class constructors / setattr, the file layer and the parsed '
                       'archive are parameters (PreludeLegacy)'},
}

# ------------------------------------------------------------------ types
# 'json' PyJ | 'str' | 'int' | 'bool' | 'float' (canonical text) | 'asset' 'assoc' 'tatt' refs | ('opt', t) | ('list', t)
# 'model' (the heap) | 'fac' | 'files' | 'env' | 'lg' | 'scaddoc' 'scadobj' 'scadassoc' 'scadev' | phantom boundary types
LEAN_T = {'json': 'PyJ', 'str': 'String', 'int': 'Int', 'bool': 'Bool', 'float': 'String', 'asset': 'ARef', 'assoc': 'LRef',
          'tatt': 'TRef', 'fac': 'Factory', 'files': 'Files', 'env': 'ModelEnv', 'model': 'H', 'scaddoc': 'Legacy.ScadDoc',
          'scadobj': 'Legacy.ScadObject', 'scadassoc': 'Legacy.ScadAssoc', 'scadev': 'ScadEv', 'lg': 'LangGraphView',
          'lgassoc': 'AssocDecl'}
def lean_type(t):
    if isinstance(t, str) and t in LEAN_T: return LEAN_T[t]
    if isinstance(t, tuple) and t[0] == 'opt': return f'(Option {lean_type(t[1])})'
    if isinstance(t, tuple) and t[0] == 'list': return f'(List {lean_type(t[1])})'
    raise Unsupported(f'type {t}')
DEFAULT = {'json': 'PyJ.null', 'str': '""', 'int': '(0 : Int)', 'bool': 'false', 'float': '""', 'asset': '0', 'assoc': '0',
           'tatt': '0'}
def default_of(t):
    if isinstance(t, str) and t in DEFAULT: return DEFAULT[t]
    if isinstance(t, tuple) and t[0] == 'opt': return 'none'
    if isinstance(t, tuple) and t[0] == 'list': return '[]'
    raise Unsupported(f'no default value for a local of type {t}')

ANN = {'str': 'str', 'LanguageClassesFactory': 'fac', 'LanguageGraph': 'lg', 'Model': 'model', 'Optional[Model]': ('opt', 'model')}
# parameters without annotation (inner functions), typed by name
PARAM_BY_NAME = {'model_dict': 'json', 'lang_classes_factory': 'fac'}
EXC = {'ValueError': 'LErr.py PyErr.valueError', 'LookupError': 'LErr.py PyErr.lookupError', 'KeyError': 'LErr.py PyErr.keyError'}

# the parsed archive: root.iter(tag) / child.attrib[key] on the abstract document
XML_ITER = {('scaddoc', 'objects'): ('objects', 'scadobj'), ('scaddoc', 'associations'): ('associations', 'scadassoc'),
            ('scadobj', 'evidenceAttributes'): ('scadEvidence', 'scadev'), ('scadev', 'evidenceDistribution'): ('scadSub', 'scadev'),
            ('scadev', 'parameters'): ('scadSub', 'scadev')}
XML_ATTR = {('scadobj', 'metaConcept'): ('metaConcept', 'str'), ('scadobj', 'name'): ('name', 'str'), ('scadobj', 'id'): ('id', 'intattr'),
            ('scadassoc', 'sourceObject'): ('sourceObject', 'intattr'), ('scadassoc', 'targetObject'): ('targetObject', 'intattr'),
            ('scadassoc', 'sourceProperty'): ('sourceProperty', 'str'), ('scadassoc', 'targetProperty'): ('targetProperty', 'str'),
            ('scadev', 'metaConcept'): ('1', 'str'), ('scadev', 'value'): ('2', 'str')}
EOM_LAMBDA = "lambda x: x[-4:] == '.eom'"

# ------------------------------------------------------------------ the signatures of the translated model.py
def model_signatures(repo):
    """lean name -> (python parameter names after self, their defaults (ast or None), lean parameter types, lean return type)"""
    gen = PM.generate(repo)
    lean = {}
    for txt in gen.values():
        for m in re.finditer(r'^def (\w+) \(s : H\) \(env : ModelEnv\)(.*) := ', txt, re.M):
            # "(p : T) … : Ret": split at parenthesis depth 0
            rest, depth, groups, cur = m.group(2), 0, [], ''
            i = 0
            while i < len(rest):
                ch = rest[i]
                if ch == '(':
                    depth += 1
                    if depth == 1: cur = ''; i += 1; continue
                if ch == ')':
                    depth -= 1
                    if depth == 0: groups.append(cur); i += 1; continue
                if depth == 0 and ch == ':': break
                if depth > 0: cur += ch
                i += 1
            ret = rest[i + 1:].strip()
            params = [g.split(' : ', 1) for g in groups]
            lean[m.group(1)] = ([p for p, _ in params], [t.strip() for _, t in params], ret)
    tree = ast.parse(open(os.path.join(repo, PM.SRC), encoding='utf-8').read())
    sigs = {}
    for c in tree.body:
        if isinstance(c, ast.ClassDef) and c.name in PM.CLASS_TYPE:
            pre = PM.PREFIX[PM.CLASS_TYPE[c.name]]
            for f in c.body:
                if isinstance(f, ast.FunctionDef) and pre + f.name in lean:
                    names = [a.arg for a in f.args.args][1:]
                    dfl = [None] * (len(names) - len(f.args.defaults)) + list(f.args.defaults)
                    dfl = dfl[-len(names):] if names else []
                    lp, lt, ret = lean[pre + f.name]
                    if lp[:1] == ['self']: lp, lt = lp[1:], lt[1:]      # methods of AttackerAttachment: the receiver
                    if [esc(n) for n in names] != lp: raise Unsupported(f'parameters of {pre + f.name} differ from model.py')
                    sigs[(PM.CLASS_TYPE[c.name], f.name)] = (pre + f.name, names, dfl, lt, ret)
    return sigs

def find_fn(tree, path):
    body = tree.body
    node = None
    for name in path:
        node = next((n for n in body if isinstance(n, ast.FunctionDef) and n.name == name), None)
        if node is None: raise Unsupported(f'function {".".join(path)} not found')
        body = node.body
    return node

def is_logger_test(e):
    return P.is_logger_call(e)

def only_logging(stmts):
    return all((isinstance(s, ast.Expr) and (P.is_logger_call(s.value) or isinstance(s.value, ast.Constant))) or isinstance(s, ast.Pass)
               for s in stmts)

class Tr:
    def __init__(self, node, lean_name, sigs, siblings, outer_params=()):
        self.node, self.lean_name, self.sigs, self.siblings = node, lean_name, sigs, siblings
        self.lines = []; self.locals = {}; self.declared = set(); self.n = 0
        self.model_fac = {}           # model variable -> factory expression it was constructed with
        self.narrow = {}              # optional local known to be not None here -> (lean name, type)
        self.has_heap = False

    def emit(self, ind, txt): self.lines.append('  ' * ind + txt)
    def fresh(self, p): self.n += 1; return f'{p}_{self.n}'

    # ---------------------------------------------------------------- expressions
    def expr(self, e):
        """-> (lean text, type); raising sub-expressions appear as (← …)"""
        if isinstance(e, ast.Constant):
            if isinstance(e.value, bool): return ('true' if e.value else 'false'), 'bool'
            if isinstance(e.value, str): return lean_str(e.value), 'str'
            if isinstance(e.value, int): return f'({e.value} : Int)', 'int'
            if e.value is None: return 'none', 'none'
            raise Unsupported(f'constant {e.value!r}')
        if isinstance(e, ast.Name):
            if self.locals.get(e.id) == 'model': return 's', 'model'
            if e.id in self.narrow: return self.narrow[e.id]
            if e.id in self.locals: return esc(e.id), self.locals[e.id]
            raise Unsupported(f'name {e.id}')
        if isinstance(e, ast.JoinedStr):
            parts = []
            for v in e.values:
                if isinstance(v, ast.Constant): parts.append(lean_str(v.value))
                elif isinstance(v, ast.FormattedValue) and v.conversion == -1 and v.format_spec is None:
                    x, t = self.expr(v.value)
                    if t == 'json': parts.append(f'(← jFormat {x})')
                    elif t == 'str': parts.append(x)
                    else: raise Unsupported(f'f-string of {t}')
                else: raise Unsupported('f-string form')
            return '(' + ' ++ '.join(parts) + ')', 'str'
        if isinstance(e, ast.IfExp):
            c = self.cond(e.test)
            a, at = self.expr(e.body); b, bt = self.expr(e.orelse)
            if at != bt: raise Unsupported(f'conditional expression of types {at} / {bt}')
            T = f'Except LErr {lean_type(at)}'
            return f'(← (if {c} then (do pure {a} : {T}) else (do pure {b} : {T})))', at
        if isinstance(e, ast.Dict):
            items = []
            for k, v in zip(e.keys, e.values):
                if not (isinstance(k, ast.Constant) and isinstance(k.value, str)): raise Unsupported('dict display key')
                x, t = self.expr(v)
                items.append(f'(Key.s {lean_str(k.value)}, {self.as_json(x, t)})')
            return '(PyJ.dict [' + ', '.join(items) + '])', 'json'
        if isinstance(e, ast.List):
            xs = [self.expr(x) for x in e.elts]
            ts = {t for _, t in xs}
            if not xs or ts == {'json'}: return '(PyJ.list [' + ', '.join(x for x, _ in xs) + '])', 'json'
            if len(ts) == 1:
                t = ts.pop()
                if t in ('asset', ('opt', 'asset')): return '[' + ', '.join(x for x, _ in xs) + ']', ('list', t)
            raise Unsupported(f'list display of {ts}')
        if isinstance(e, ast.ListComp):
            if len(e.generators) != 1 or e.generators[0].ifs or not isinstance(e.generators[0].target, ast.Name):
                raise Unsupported('comprehension shape')
            g = e.generators[0]
            it, itt = self.iterable(g.iter)
            v = g.target.id
            saved = self.locals.get(v); self.locals[v] = itt
            x, t = self.vexpr(e.elt)
            if saved is None: del self.locals[v]
            else: self.locals[v] = saved
            return f'(← ({it}).mapM (fun {esc(v)} => (do pure {x} : Except LErr {lean_type(t)})))', ('list', t)
        if isinstance(e, ast.Subscript):
            # child.attrib['key'] on the parsed archive
            if isinstance(e.value, ast.Attribute) and e.value.attr == 'attrib' and isinstance(e.slice, ast.Constant):
                b, bt = self.expr(e.value.value)
                if (bt, e.slice.value) in XML_ATTR:
                    f, t = XML_ATTR[(bt, e.slice.value)]
                    return f'{b}.{f}', t
                raise Unsupported(f'attribute {e.slice.value!r} of a {bt} element')
            # s.split('.')[0]
            if isinstance(e.slice, ast.Constant) and e.slice.value == 0 and isinstance(e.value, ast.Call) and \
                    isinstance(e.value.func, ast.Attribute) and e.value.func.attr == 'split' and len(e.value.args) == 1 and \
                    isinstance(e.value.args[0], ast.Constant) and e.value.args[0].value == '.' and not e.value.keywords:
                b, bt = self.expr(e.value.func.value)
                if bt != 'str': raise Unsupported(f'split on {bt}')
                return f'(pySplitDotFirst {b})', 'str'
            b, bt = self.expr(e.value)
            if bt == 'json':
                k, kt = self.expr(e.slice)
                return f'(← jIndex {b} {self.as_json(k, kt)})', 'json'
            raise Unsupported(f'subscript on {bt}')
        if isinstance(e, ast.Attribute):
            b, bt = self.expr(e.value)
            if bt == 'model' and e.attr == 'lang_classes_factory':
                if e.value.id not in self.model_fac: raise Unsupported('factory of a model that was not constructed here')
                return self.model_fac[e.value.id], 'fac'
            if bt == 'lgassoc' and e.attr == 'name': return f'{b}.name', 'str'
            if bt == 'lgassoc' and e.attr in ('left_field', 'right_field'): return b, ('lgfield', e.attr)
            if isinstance(bt, tuple) and bt[0] == 'lgfield' and e.attr == 'asset': return b, ('lgfieldasset', bt[1])
            if isinstance(bt, tuple) and bt[0] == 'lgfieldasset' and e.attr == 'name':
                return f'{b}.{"leftAsset" if bt[1] == "left_field" else "rightAsset"}', 'str'
            if bt == 'asset' and e.attr == 'type': return f'(s.a {b}).type', 'str'
            raise Unsupported(f'attribute {e.attr} of {bt}')
        if isinstance(e, ast.Compare): return self.compare(e), 'bool'
        if isinstance(e, ast.BoolOp) or (isinstance(e, ast.UnaryOp) and isinstance(e.op, ast.Not)): return self.cond(e), 'bool'
        if isinstance(e, ast.BinOp) and isinstance(e.op, ast.Add):
            a, at = self.expr(e.left); b, bt = self.expr(e.right)
            if at == bt == 'str': return f'({a} ++ {b})', 'str'
            raise Unsupported(f'+ on {at}, {bt}')
        if isinstance(e, ast.Call): return self.call(e)
        raise Unsupported(f'expression {type(e).__name__}: {ast.unparse(e)[:60]}')

    def as_json(self, x, t):
        if t == 'json': return x
        if t == 'str': return f'(PyJ.str {x})'
        if t == 'int': return f'(PyJ.int {x})'
        raise Unsupported(f'{t} used as a document value')

    def iterable(self, e):
        """the list a `for` / comprehension walks, and the type of its elements"""
        if isinstance(e, ast.Call) and isinstance(e.func, ast.Attribute) and e.func.attr == 'iter' and len(e.args) == 1 \
                and isinstance(e.args[0], ast.Constant) and not e.keywords:
            b, bt = self.expr(e.func.value)
            if (bt, e.args[0].value) in XML_ITER:
                f, t = XML_ITER[(bt, e.args[0].value)]
                return (f'{b}.{f}' if bt == 'scaddoc' else f'({f} {b})'), t
            raise Unsupported(f'iter({e.args[0].value!r}) on {bt}')
        if isinstance(e, ast.Call) and isinstance(e.func, ast.Attribute) and e.func.attr == 'items' and not e.args and not e.keywords:
            b, bt = self.expr(e.func.value)
            if bt != 'json': raise Unsupported(f'items() of {bt}')
            return f'(← jItems {b})', ('pair', 'json', 'json')
        x, t = self.expr(e)
        if t == 'json': return f'(← jIter {x})', 'json'
        raise Unsupported(f'iteration over {t}')

    def compare(self, e):
        if len(e.ops) != 1: raise Unsupported('chained comparison')
        op, rhs = e.ops[0], e.comparators[0]
        if isinstance(rhs, ast.Constant) and rhs.value is None and isinstance(op, (ast.Is, ast.IsNot)):
            x, t = self.expr(e.left)
            if not (isinstance(t, tuple) and t[0] == 'opt'): raise Unsupported(f'`is None` on {t}')
            return f'({x}).isNone' if isinstance(op, ast.Is) else f'({x}).isSome'
        if isinstance(op, (ast.In, ast.NotIn)):
            # 'value' in d.attrib
            if isinstance(rhs, ast.Attribute) and rhs.attr == 'attrib' and isinstance(e.left, ast.Constant):
                b, bt = self.expr(rhs.value)
                if (bt, e.left.value) not in XML_ATTR: raise Unsupported(f'{e.left.value!r} in attrib of {bt}')
                return 'true' if isinstance(op, ast.In) else 'false'
            l, lt = self.expr(e.left); r, rt = self.expr(rhs)
            if rt != 'json': raise Unsupported(f'membership in {rt}')
            res = f'(← jContains {self.as_json(l, lt)} {r})'
            return res if isinstance(op, ast.In) else f'!{res}'
        if isinstance(op, (ast.Eq, ast.NotEq)):
            l, lt = self.expr(e.left); r, rt = self.expr(rhs)
            if lt == rt and lt in ('str', 'int', 'bool'):
                return f'({l} == {r})' if isinstance(op, ast.Eq) else f'({l} != {r})'
            raise Unsupported(f'== between {lt} and {rt}')
        raise Unsupported(f'comparison {type(op).__name__}')

    def cond(self, e):
        """truth value of an expression used as a condition"""
        if isinstance(e, ast.UnaryOp) and isinstance(e.op, ast.Not): return f'!{self.cond(e.operand)}'
        if isinstance(e, ast.BoolOp):
            parts = [self.cond(v) for v in e.values]
            if any('(←' in p for p in parts[1:]): raise Unsupported('raising operand under and / or')
            return '(' + (' && ' if isinstance(e.op, ast.And) else ' || ').join(parts) + ')'
        x, t = self.expr(e)
        if t == 'bool': return x
        if isinstance(t, tuple) and t[0] == 'opt' and t[1] in ('asset', 'tatt', 'lgassoc'): return f'({x}).isSome'   # objects are truthy
        raise Unsupported(f'truth value of {t}')

    def call(self, e):
        f = e.func
        if isinstance(f, ast.Name):
            n = f.id
            if n == 'isinstance' and len(e.args) == 2 and isinstance(e.args[1], ast.Name) and e.args[1].id in ('dict', 'list') and not e.keywords:
                x, t = self.expr(e.args[0])
                if t != 'json': raise Unsupported(f'isinstance on {t}')
                return f'({"jIsDict" if e.args[1].id == "dict" else "jIsList"} {x})', 'bool'
            if n == 'int' and len(e.args) == 1 and not e.keywords:
                x, t = self.expr(e.args[0])
                if t == 'json': return f'(← jInt {x})', 'int'
                if t == 'intattr': return x, 'int'          # the id attributes of the parsed archive are integers
                raise Unsupported(f'int() of {t}')
            if n == 'float' and len(e.args) == 1 and not e.keywords:
                x, t = self.expr(e.args[0])
                if t == 'json': return f'(← jFloat {x})', 'float'
                if t == 'str': return x, 'float'             # attribute text of the archive: canonical float text
                raise Unsupported(f'float() of {t}')
            if n == 'hasattr' and len(e.args) == 2 and not e.keywords and isinstance(e.args[0], ast.Attribute) and e.args[0].attr == 'ns':
                fac, ft = self.expr(e.args[0].value); x, t = self.expr(e.args[1])
                if ft != 'fac' or t != 'str': raise Unsupported('hasattr(ns, ·)')
                return f'(nsHasAsset {fac} {x})', 'bool'
            if n in self.siblings and not e.keywords:
                name, params, ret = self.siblings[n]
                if len(e.args) != len(params): raise Unsupported(f'arguments of {n}')
                args = []
                for a, (pn, pt) in zip(e.args, params):
                    x, t = self.expr(a)
                    if t != pt: raise Unsupported(f'argument {pn} of {n}: {t}')
                    args.append(x)
                return f'(← {name} files env ' + ' '.join(args) + ')', ret
            raise Unsupported(f'call of {n}')
        if isinstance(f, ast.Attribute):
            m = f.attr
            if m == 'get' and len(e.args) == 2 and not e.keywords:
                b, bt = self.expr(f.value)
                if bt == 'json':
                    k, kt = self.expr(e.args[0]); d, dt = self.expr(e.args[1])
                    return f'(← jGetD {b} {self.as_json(k, kt)} {self.as_json(d, dt)})', 'json'
            if m == 'endswith' and len(e.args) == 1 and not e.keywords:
                b, bt = self.expr(f.value); x, t = self.expr(e.args[0])
                if bt == t == 'str': return f'({b}.endsWith {x})', 'bool'
            if m == 'lower' and not e.args and not e.keywords:
                raise Unsupported('str.lower outside the decapitalisation idiom')
            b, bt = self.expr(f.value)
            if bt == 'model': return self.method_call('graph', b, m, e)
            if bt == 'tatt': return self.method_call('tatt', b, m, e)
            if bt == 'lg' and m == 'get_association_by_fields_and_assets' and len(e.args) == 4 and not e.keywords:
                args = [self.expr(a) for a in e.args]
                if [t for _, t in args] != ['str'] * 4: raise Unsupported('arguments of get_association_by_fields_and_assets')
                return f'(← {b}.get_association_by_fields_and_assets ' + ' '.join(x for x, _ in args) + ')', ('opt', 'lgassoc')
            if bt == 'fac' and m == 'get_association_by_signature' and len(e.args) == 3 and not e.keywords:
                args = [self.expr(a) for a in e.args]
                if [t for _, t in args] != ['str'] * 3: raise Unsupported('arguments of get_association_by_signature')
                return f'(← facAssocBySignature {b} ' + ' '.join(x for x, _ in args) + ')', ('opt', 'str')
            raise Unsupported(f'method {m} of {bt}')
        raise Unsupported(f'call {ast.unparse(e)[:60]}')

    def method_call(self, cls, recv, m, e):
        if (cls, m) not in self.sigs: raise Unsupported(f'{m} is not a translated method of model.py')
        name, pnames, dfl, ltypes, ret = self.sigs[(cls, m)]
        if cls == 'tatt': pnames, dfl, ltypes = pnames, dfl, ltypes
        given = {}
        for i, a in enumerate(e.args):
            if i >= len(pnames): raise Unsupported(f'too many arguments for {m}')
            given[pnames[i]] = a
        for kw in e.keywords:
            if kw.arg not in pnames or kw.arg in given: raise Unsupported(f'keyword {kw.arg} of {m}')
            given[kw.arg] = kw.value
        args = []
        for pn, d, lt in zip(pnames, dfl, ltypes):
            a = given.get(pn, d)
            if a is None: raise Unsupported(f'missing argument {pn} of {m}')
            x, t = self.expr(a)
            args.append(self.fit(x, t, lt, f'{m}({pn})'))
        head = f'{name} s env ' + (f'{recv} ' if cls == 'tatt' else '') + ' '.join(args)
        return head.strip(), ('modelcall', ret)

    def fit(self, x, t, lean_t, what):
        want = lean_t.strip()
        if t == 'none' and want.startswith('(Option'): return 'none'
        if lean_type_safe(t) == want: return x
        if want == f'(Option {lean_type_safe(t)})': return f'(some {x})'
        raise Unsupported(f'argument {what}: {t} where {want} is expected')

    def value_of_modelcall(self, head, ret):
        """a call of a translated model.py function used as a value"""
        m = re.fullmatch(r'Except PyErr (.*)', ret)
        inner = m.group(1) if m else ret
        x = f'(← liftPy ({head}))' if m else f'({head})'
        back = {'(Option ARef)': ('opt', 'asset'), '(Option TRef)': ('opt', 'tatt'), 'Bool': 'bool'}
        if inner not in back: raise Unsupported(f'result type {inner} of a model.py function used as a value')
        return x, back[inner]

    def vexpr(self, e):
        x, t = self.expr(e)
        if isinstance(t, tuple) and t[0] == 'modelcall': return self.value_of_modelcall(x, t[1])
        return x, t

    # ---------------------------------------------------------------- statements
    def assign(self, ind, name, x, t):
        if name in self.narrow: raise Unsupported(f'assignment to {name} where it is known to be not None')
        if name in self.declared:
            if self.locals[name] != t:
                if self.locals[name] == ('opt', t): x = f'(some {x})'
                elif t == 'none' and isinstance(self.locals[name], tuple) and self.locals[name][0] == 'opt': x = 'none'
                else: raise Unsupported(f'local {name} changes its type from {self.locals[name]} to {t}')
            self.emit(ind, f'{esc(name)} := {x}')
        else:
            if t == 'none': t = self.none_type(name)
            if t == ('opt', '?'): raise Unsupported(f'type of {name} = None')
            self.locals[name] = t; self.declared.add(name)
            if t == 'none': raise Unsupported(f'{name} = None of unknown type')
            self.emit(ind, f'let mut {esc(name)} : {lean_type(t)} := {x}')

    def none_type(self, name):
        """`x = None`: the type comes from the other assignments of x in the function"""
        for n in ast.walk(self.node):
            if isinstance(n, ast.Assign) and len(n.targets) == 1 and isinstance(n.targets[0], ast.Name) and n.targets[0].id == name \
                    and not (isinstance(n.value, ast.Constant) and n.value.value is None):
                saved = list(self.lines)
                try:
                    _, t = self.vexpr(n.value)
                except Unsupported:
                    continue
                finally:
                    self.lines = saved
                return ('opt', t)
        raise Unsupported(f'type of {name} = None')

    def heap_result(self, ind, x):
        """a prelude constructor returning (heap, reference)"""
        r = self.fresh('r')
        self.emit(ind, f'let {r} ← {x}')
        self.emit(ind, f's := {r}.1')
        return f'{r}.2'

    def ctor(self, ind, v):
        """constructor calls: -> (lean expr of the new reference, type) or None"""
        if not isinstance(v, ast.Call): return None
        f = v.func
        # getattr(<fac>.ns, name)(name = n)  /  getattr(<fac>.ns, name)()
        if isinstance(f, ast.Call) and isinstance(f.func, ast.Name) and f.func.id == 'getattr' and len(f.args) == 2 and not f.keywords \
                and isinstance(f.args[0], ast.Attribute) and f.args[0].attr == 'ns':
            fac, ft = self.expr(f.args[0].value)
            if ft != 'fac': raise Unsupported(f'.ns of {ft}')
            c, ct = self.expr(f.args[1])
            if not v.args and len(v.keywords) == 1 and v.keywords[0].arg == 'name':
                n, nt = self.expr(v.keywords[0].value)
                return self.heap_result(ind, f'nsNewAsset {fac} s {self.as_json(c, ct)} {self.as_json(n, nt)}'), 'asset'
            if not v.args and not v.keywords:
                return self.heap_result(ind, f'nsNewAssoc {fac} s {self.as_json(c, ct)}'), 'assoc'
            raise Unsupported('constructor arguments of a generated class')
        if isinstance(f, ast.Name) and f.id == 'AttackerAttachment' and not v.args:
            if not v.keywords: return self.heap_result(ind, 'newAttachment s PyJ.null'), 'tatt'
            if len(v.keywords) == 1 and v.keywords[0].arg == 'name':
                n, nt = self.expr(v.keywords[0].value)
                return self.heap_result(ind, f'newAttachment s {self.as_json(n, nt)}'), 'tatt'
            raise Unsupported('arguments of AttackerAttachment(..)')
        return None

    def stmt(self, ind, st, rest=()):
        if isinstance(st, ast.Expr) and isinstance(st.value, ast.Constant): return        # docstring
        if isinstance(st, ast.Expr) and P.is_logger_call(st.value): return
        if isinstance(st, ast.Pass): return
        if isinstance(st, ast.FunctionDef): return                                        # nested functions: translated separately
        if isinstance(st, ast.Assign) and len(st.targets) == 1:
            tgt, v = st.targets[0], st.value
            if isinstance(tgt, ast.Name):
                # the model under construction
                if isinstance(v, ast.Call) and isinstance(v.func, ast.Name) and v.func.id == 'Model' and len(v.args) == 2 and not v.keywords:
                    if self.has_heap: raise Unsupported('a second Model(..)')
                    n, nt = self.expr(v.args[0]); fac, ft = self.expr(v.args[1])
                    if ft != 'fac': raise Unsupported('Model(name, factory)')
                    self.emit(ind, f'let mut s : H ← newModel {self.as_json(n, nt)}')
                    self.has_heap = True; self.locals[tgt.id] = 'model'; self.model_fac[tgt.id] = fac
                    return
                if tgt.id in self.model_fac: raise Unsupported('the model variable is assigned again')
                # boundary: archive.namelist() / next(filter(lambda, filelist)) / archive.read(member) / ET.fromstring(bytes)
                ph = self.phantom(v)
                if ph is not None:
                    if ph[0] == 'lean':
                        self.locals[tgt.id] = 'scaddoc'; self.declared.add(tgt.id)
                        self.emit(ind, f'let {esc(tgt.id)} ← {ph[1]}')
                    else:
                        self.locals[tgt.id] = ph
                    return
                c = self.ctor(ind, v)
                if c is not None:
                    self.assign(ind, tgt.id, c[0], c[1]); return
                # x = d.pop(k) is not used; `name[0].lower() + name[1:]`
                if self.is_decap(v, tgt.id):
                    self.emit(ind, f'{esc(tgt.id)} ← pyDecap {esc(tgt.id)}'); return
                x, t = self.vexpr(v)
                self.assign(ind, tgt.id, x, t); return
            if isinstance(tgt, ast.Attribute) and tgt.attr == 'entry_points' and isinstance(v, ast.List) and not v.elts:
                b, bt = self.expr(tgt.value)
                if bt != 'tatt': raise Unsupported(f'entry_points of {bt}')
                self.emit(ind, f's := s.setT {b} {{ s.t {b} with entry_points := [] }}'); return
            raise Unsupported(f'assignment target {ast.unparse(tgt)}')
        if isinstance(st, ast.Expr) and isinstance(st.value, ast.Call):
            v = st.value; f = v.func
            if isinstance(f, ast.Name) and f.id == 'setattr' and len(v.args) == 3 and not v.keywords:
                o, ot = self.expr(v.args[0]); n, nt = self.expr(v.args[1]); x, xt = self.vexpr(v.args[2])
                fac = self.the_factory()
                if ot == 'asset' and xt == 'float':
                    self.emit(ind, f's ← pjsSetDefense {fac} s {o} {self.as_json(n, nt)} {x}'); return
                if ot == 'assoc' and xt in (('list', 'asset'), ('list', ('opt', 'asset'))):
                    if xt == ('list', 'asset'): x = f'({x}.map some)'
                    self.emit(ind, f's ← pjsSetField {fac} s {o} {self.as_json(n, nt)} {x}'); return
                raise Unsupported(f'setattr({ot}, ·, {xt})')
            # attacker.entry_points.append((asset, steps))
            if isinstance(f, ast.Attribute) and f.attr == 'append' and isinstance(f.value, ast.Attribute) and f.value.attr == 'entry_points' \
                    and len(v.args) == 1 and isinstance(v.args[0], ast.Tuple) and len(v.args[0].elts) == 2 and not v.keywords:
                b, bt = self.expr(f.value.value)
                if bt != 'tatt': raise Unsupported(f'entry_points of {bt}')
                a, at = self.vexpr(v.args[0].elts[0]); steps, stt = self.expr(v.args[0].elts[1])
                if at == 'asset': a = f'(some {a})'
                elif at != ('opt', 'asset'): raise Unsupported(f'entry point asset of type {at}')
                if stt != 'json': raise Unsupported(f'entry point steps of type {stt}')
                ep = self.fresh('ep'); r = self.fresh('r')
                self.emit(ind, f'let {ep} ← epTuple {a} (← jStrs {steps})')
                self.emit(ind, f'let {r} := s.allocE {ep}')
                self.emit(ind, f's := {r}.1')
                self.emit(ind, f's := s.setT {b} {{ s.t {b} with entry_points := ((s.t {b}).entry_points ++ [{r}.2]) }}')
                return
            x, t = self.expr(v)
            if isinstance(t, tuple) and t[0] == 'modelcall':
                ret = t[1]
                if ret == 'Except PyErr H': self.emit(ind, f's ← liftPy ({x})')
                elif ret == 'H': self.emit(ind, f's := {x}')
                elif ret == 'Except PyErr Unit': self.emit(ind, f'let _ ← liftPy ({x})')
                else: raise Unsupported(f'result {ret} of a model.py function is discarded')
                return
            raise Unsupported(f'expression statement {ast.unparse(v)[:60]}')
        if isinstance(st, ast.Return):
            rt = self.ret
            if st.value is None or (isinstance(st.value, ast.Constant) and st.value.value is None):
                if rt == ('opt', 'model'): self.emit(ind, 'return none'); return
                raise Unsupported('return None')
            x, t = self.vexpr(st.value)
            if rt == t: self.emit(ind, f'return {x}')
            elif rt == ('opt', t): self.emit(ind, f'return (some {x})')
            else: raise Unsupported(f'return of {t} where {rt} is declared')
            return
        if isinstance(st, ast.Raise):
            exc = st.exc
            n = exc.func.id if isinstance(exc, ast.Call) and isinstance(exc.func, ast.Name) else None
            if n not in EXC: raise Unsupported(f'raise {ast.unparse(exc)[:40]}')
            self.emit(ind, f'throw ({EXC[n]})'); return
        if isinstance(st, ast.Continue): self.emit(ind, 'continue'); return
        if isinstance(st, ast.If):
            if is_logger_test(st.test):
                if only_logging(st.body) and not st.orelse: return
                raise Unsupported('logger test guarding code')
            self.predeclare(ind, st, rest)
            self.if_chain(ind, st); return
        if isinstance(st, ast.Match):
            subj, stt = self.expr(st.subject)
            if stt != 'str': raise Unsupported('match subject')
            first = True
            for i, c in enumerate(st.cases):
                if c.guard is not None: raise Unsupported('case guard')
                if isinstance(c.pattern, ast.MatchValue) and isinstance(c.pattern.value, ast.Constant) and isinstance(c.pattern.value.value, str):
                    self.emit(ind, f'{"if" if first else "else if"} ({subj} == {lean_str(c.pattern.value.value)}) then')
                elif isinstance(c.pattern, ast.MatchAs) and c.pattern.pattern is None and c.pattern.name is None and i == len(st.cases) - 1 and not first:
                    self.emit(ind, 'else')
                else: raise Unsupported('case pattern')
                first = False
                self.block(ind + 1, c.body)
            return
        if isinstance(st, ast.For):
            return self.for_stmt(ind, st)
        if isinstance(st, ast.With):
            return self.with_stmt(ind, st)
        raise Unsupported(f'statement {type(st).__name__}: {ast.unparse(st)[:60]}')

    def the_factory(self):
        if len(set(self.model_fac.values())) == 1: return next(iter(self.model_fac.values()))
        raise Unsupported('setattr on a generated object without a model in scope')

    def is_decap(self, v, name):
        return ast.unparse(v) == f'{name}[0].lower() + {name}[1:]' and self.locals.get(name) == 'str'

    def phantom(self, v):
        u = ast.unparse(v)
        for name, t in self.locals.items():
            if isinstance(t, tuple) and t[0] == 'zip' and u == f'{name}.namelist()': return ('namelist', t[1])
            if isinstance(t, tuple) and t[0] == 'namelist' and u == f'next(filter({EOM_LAMBDA}, {name}))': return ('member', t[1])
            if isinstance(t, tuple) and t[0] == 'member':
                for a, at in self.locals.items():
                    if isinstance(at, tuple) and at[0] == 'zip' and u == f'{a}.read({name})': return ('bytes', t[1])
            if isinstance(t, tuple) and t[0] == 'bytes' and u == f'ET.fromstring({name})': return ('lean', f'files.eom {t[1]}')
        return None

    def with_stmt(self, ind, st):
        if len(st.items) != 1 or not isinstance(st.items[0].optional_vars, ast.Name): raise Unsupported('with shape')
        ce = st.items[0].context_expr; var = st.items[0].optional_vars.id
        u = ast.unparse(ce)
        m = re.fullmatch(r"open\((\w+), 'r', encoding='utf-8'\)", u)
        if m and self.locals.get(m.group(1)) == 'str':
            self.locals[var] = ('file', esc(m.group(1)))
        else:
            m = re.fullmatch(r"zipfile\.ZipFile\((\w+), 'r'\)", u)
            if m and self.locals.get(m.group(1)) == 'str': self.locals[var] = ('zip', esc(m.group(1)))
            else: raise Unsupported(f'with {u[:50]}')
        for b in st.body:
            # model_dict = json.loads(f.read()) / yaml.safe_load(f)
            if isinstance(b, ast.Assign) and len(b.targets) == 1 and isinstance(b.targets[0], ast.Name) and self.locals[var][0] == 'file':
                ub = ast.unparse(b.value)
                which = 'json' if ub == f'json.loads({var}.read())' else 'yaml' if ub == f'yaml.safe_load({var})' else None
                if which is None: raise Unsupported(f'file access {ub[:50]}')
                self.assign(ind, b.targets[0].id, f'(← files.{which} {self.locals[var][1]})', 'json')
            else:
                self.stmt(ind, b)
        del self.locals[var]

    def assigned_names(self, stmts):
        out = []
        for s in stmts:
            for n in ast.walk(s):
                if isinstance(n, ast.Assign):
                    for t in n.targets:
                        if isinstance(t, ast.Name) and t.id not in out: out.append(t.id)
        return out

    def predeclare(self, ind, st, rest):
        """locals first assigned inside an `if` and read after it: declared before the `if` (Python would raise
        UnboundLocalError when such a local is read without having been assigned; here it holds a default)"""
        later = {n.id for r in rest for n in ast.walk(r) if isinstance(n, ast.Name) and isinstance(n.ctx, ast.Load)}
        need = [v for v in self.assigned_names([st]) if v not in self.declared and v in later]
        if not need: return
        saved = (list(self.lines), dict(self.locals), set(self.declared), self.n)
        try:
            self.if_chain(ind, st)
            types = {v: self.locals.get(v) for v in need}
        finally:
            self.lines, self.locals, self.declared, self.n = saved[0], saved[1], saved[2], saved[3]
        for v in need:
            if types[v] is None: raise Unsupported(f'type of local {v}')
            self.locals[v] = types[v]; self.declared.add(v)
            self.emit(ind, f'let mut {esc(v)} : {lean_type(types[v])} := {default_of(types[v])}')

    def opt_test(self, test):
        """(name, True) for `x is not None` / truthiness of an optional object; (name, False) for `x is None` / `not x`"""
        def optname(n):
            return isinstance(n, ast.Name) and n.id not in self.narrow and isinstance(self.locals.get(n.id), tuple) \
                and self.locals[n.id][0] == 'opt' and n.id in self.declared
        if isinstance(test, ast.Compare) and len(test.ops) == 1 and isinstance(test.comparators[0], ast.Constant) \
                and test.comparators[0].value is None and optname(test.left):
            if isinstance(test.ops[0], ast.IsNot): return test.left.id, True
            if isinstance(test.ops[0], ast.Is): return test.left.id, False
        if isinstance(test, ast.UnaryOp) and isinstance(test.op, ast.Not) and optname(test.operand) \
                and self.locals[test.operand.id][1] in ('asset', 'tatt', 'lgassoc'):
            return test.operand.id, False
        return None

    def if_chain(self, ind, st):
        ot = self.opt_test(st.test)
        if ot is not None and not st.orelse:
            name, positive = ot
            t = self.locals[name][1]
            v = self.fresh(esc(name))
            if positive:
                self.emit(ind, f'match {esc(name)} with')
                self.emit(ind, f'| some {v} =>')
                self.narrow[name] = (v, t)
                self.block(ind + 1, st.body)
                del self.narrow[name]
                self.emit(ind, '| none =>')
                self.emit(ind + 1, 'pure ()')
                return
            if always_leaves(st.body[-1]) or isinstance(st.body[-1], ast.Continue):
                self.emit(ind, f'let some {v} := {esc(name)}')
                self.emit(ind + 1, '| do')
                self.block(ind + 2, st.body)
                self.narrow[name] = (v, t)          # until the end of the enclosing block
                return
        c = self.cond(st.test)
        self.emit(ind, f'if {c} then')
        self.block(ind + 1, st.body)
        if st.orelse:
            self.emit(ind, 'else')
            self.block(ind + 1, st.orelse)

    def for_stmt(self, ind, st):
        if st.orelse: raise Unsupported('for/else')
        pre = None
        it_node = st.iter
        if isinstance(it_node, ast.NamedExpr):
            x, t = self.vexpr(it_node.value)
            self.assign(ind, it_node.target.id, x, t)
            it_node = it_node.target
        it, elt = self.iterable(it_node)
        if isinstance(st.target, ast.Name): vars_, types = [st.target.id], [elt]
        elif isinstance(st.target, ast.Tuple) and all(isinstance(x, ast.Name) for x in st.target.elts) and \
                isinstance(elt, tuple) and elt[0] == 'pair' and len(st.target.elts) == 2:
            vars_, types = [x.id for x in st.target.elts], [elt[1], elt[2]]
        else: raise Unsupported('for target')
        for v in vars_:
            if v in self.declared: raise Unsupported(f'loop variable {v} is also a local')
        pat = esc(vars_[0]) if len(vars_) == 1 else '(' + ', '.join(esc(v) for v in vars_) + ')'
        self.emit(ind, f'for {pat} in {it} do')
        saved_locals, saved_decl = dict(self.locals), set(self.declared)
        reassigned = set(self.assigned_names(st.body))
        # d.pop(k) on a loop variable rebinds it
        for n in ast.walk(st):
            if isinstance(n, ast.Call) and isinstance(n.func, ast.Attribute) and n.func.attr == 'pop' and isinstance(n.func.value, ast.Name):
                reassigned.add(n.func.value.id)
        for v, t in zip(vars_, types):
            self.locals[v] = t
            if v in reassigned:
                self.emit(ind + 1, f'let mut {esc(v)} := {esc(v)}'); self.declared.add(v)
        self.block(ind + 1, st.body)
        self.locals, self.declared = saved_locals, saved_decl

    def block(self, ind, stmts):
        n0 = len(self.lines)
        saved_narrow = dict(self.narrow)
        stmts = list(stmts)
        for i, s in enumerate(stmts):
            # `return` directly after `raise`: unreachable
            if isinstance(s, ast.Return) and i > 0 and isinstance(stmts[i - 1], ast.Raise): continue
            self.pop_stmt(ind, s) if self.is_pop_stmt(s) else self.stmt(ind, s, stmts[i + 1:])
        if len(self.lines) == n0: self.emit(ind, 'pure ()')
        self.narrow = saved_narrow

    # association = getattr(ns, assoc_dict.pop('metaconcept'))()  — the pop is evaluated first and rebinds the local
    def is_pop_stmt(self, s):
        return any(isinstance(n, ast.Call) and isinstance(n.func, ast.Attribute) and n.func.attr == 'pop' for n in ast.walk(s)) \
            and not isinstance(s, (ast.For, ast.If, ast.With, ast.FunctionDef, ast.Match))

    def pop_stmt(self, ind, s):
        pops = [n for n in ast.walk(s) if isinstance(n, ast.Call) and isinstance(n.func, ast.Attribute) and n.func.attr == 'pop']
        if len(pops) != 1: raise Unsupported('several pop() in one statement')
        p = pops[0]
        if not (isinstance(p.func.value, ast.Name) and len(p.args) == 1 and not p.keywords): raise Unsupported('pop form')
        d = p.func.value.id
        if self.locals.get(d) != 'json' or d not in self.declared: raise Unsupported(f'pop on {d}')
        self.check_unshared(d)
        k, kt = self.expr(p.args[0])
        r = self.fresh('p')
        self.emit(ind, f'let {r} ← jPop {esc(d)} {self.as_json(k, kt)}')
        self.emit(ind, f'{esc(d)} := {r}.2')
        # replace the pop call by the popped value
        tmp = f'__popped_{self.n}'
        self.locals[tmp] = 'json'
        class R(ast.NodeTransformer):
            def visit_Call(s_, n):
                if n is p: return ast.Name(id=tmp, ctx=ast.Load())
                return s_.generic_visit(n)
        s2 = R().visit(s)
        saved_esc = None
        n0 = len(self.lines)
        self.stmt(ind, s2)
        self.lines[n0:] = [l.replace(tmp, f'{r}.1') for l in self.lines[n0:]]
        del self.locals[tmp]

    def check_unshared(self, d):
        """documents are values here; Python mutates the dictionary object.  The popped dictionary is a loop variable
        over `<root>.get(key, ..)` / `<root>[key]`: refuse unless that key is used exactly once in the function."""
        for n in ast.walk(self.node):
            if isinstance(n, ast.For) and isinstance(n.target, ast.Name) and n.target.id == d:
                keys = [c.value for c in ast.walk(n.iter) if isinstance(c, ast.Constant) and isinstance(c.value, str)]
                if len(keys) != 1: raise Unsupported('pop on an element of a list that is not <doc>[key]')
                uses = sum(1 for c in ast.walk(self.node) if isinstance(c, ast.Constant) and c.value == keys[0])
                if uses != 1: raise Unsupported(f'pop mutates an element of <doc>[{keys[0]!r}], which is read more than once')
                return
        raise Unsupported(f'pop on {d}, which is not a loop variable')

    # ---------------------------------------------------------------- function
    def translate(self, doc):
        a = self.node.args
        if a.vararg or a.kwarg or a.kwonlyargs or a.posonlyargs or a.defaults or self.node.decorator_list:
            raise Unsupported(f'parameter list of {self.node.name}')
        params = []
        for p in a.args:
            if p.annotation is not None:
                src = ast.unparse(p.annotation).replace(' ', '')
                if src not in ANN: raise Unsupported(f'annotation {src}')
                t = ANN[src]
            elif p.arg in PARAM_BY_NAME: t = PARAM_BY_NAME[p.arg]
            else: raise Unsupported(f'parameter {p.arg} without annotation')
            params.append((p.arg, t)); self.locals[p.arg] = t
        if self.node.returns is None: raise Unsupported('missing return annotation')
        rsrc = ast.unparse(self.node.returns).replace(' ', '')
        if rsrc not in ANN: raise Unsupported(f'return annotation {rsrc}')
        self.ret = ANN[rsrc]
        self.params = params
        body = list(self.node.body)
        # a trailing `return None` after an if/elif/else in which every branch returns or raises: unreachable
        if len(body) >= 2 and isinstance(body[-1], ast.Return) and isinstance(body[-1].value, ast.Constant) and body[-1].value.value is None \
                and self.ret == 'model' and always_leaves(body[-2]):
            body = body[:-1]
        self.block(1, body)
        sig = ' '.join(f'({esc(n)} : {lean_type(t)})' for n, t in params)
        head = f'-- {doc}\ndef {self.lean_name} (files : Files) (env : ModelEnv) {sig} : Except LErr {lean_type(self.ret)} := do\n'
        return head + '\n'.join(self.lines) + '\n'

def always_leaves(st):
    if isinstance(st, (ast.Return, ast.Raise)): return True
    if isinstance(st, ast.If): return bool(st.orelse) and always_leaves(st.body[-1]) and always_leaves(st.orelse[-1])
    return False

def lean_type_safe(t):
    try: return lean_type(t)
    except Unsupported: return None

def lean_str(s):
    out = '"'
    for ch in s:
        if ch == '"': out += '\\"'
        elif ch == '\\': out += '\\\\'
        elif ch == '\n': out += '\\n'
        elif ch == '\t': out += '\\t'
        elif 32 <= ord(ch) < 127: out += ch
        else: raise Unsupported(f'character {ch!r} in a string literal')
    return out + '"'

HEADER = '''/- GENERATED by translators/py2lean_legacy.py from {path} — do not edit.
   Regenerated and compared on every run of the checks; see MalVerif/Py/PreludeLegacy.lean for the conventions. -/
import MalVerif.Py.PreludeLegacy
import MalVerif.Py.GenModel.Assets
import MalVerif.Py.GenModel.Assoc
set_option linter.unusedVariables false
namespace MalVerif.PyLeg.Gen
open MalVerif MalVerif.PyM MalVerif.PyM.Gen MalVerif.PyLeg
open MalVerif.Ser (Key)

'''

def generate(repo, modules=None) -> dict[str, str]:
    sigs = model_signatures(repo)
    out = {}
    for mod in (modules or MODULE_ORDER):
        path, sel = MODULES[mod]
        tree = ast.parse(open(os.path.join(repo, path), encoding='utf-8').read())
        txt = HEADER.format(path=path)
        siblings = {}
        for fpath, lean_name in sel:
            node = find_fn(tree, fpath)
            tr = Tr(node, lean_name, sigs, dict(siblings))
            txt += tr.translate(f'{path}: {".".join(fpath)}') + '\n'
            siblings[node.name] = (lean_name, tr.params, tr.ret)
        txt += 'end MalVerif.PyLeg.Gen\n'
        out[mod] = txt
    return out

def main(argv):
    repo = argv[1]
    try:
        out = generate(repo)
    except Unsupported as e:
        print(f'UNSUPPORTED: {e}')
        return 3
    if argv[2] == '--check':
        bad = [m for m, t in out.items() if not os.path.exists(os.path.join(argv[3], m + '.lean'))
               or open(os.path.join(argv[3], m + '.lean'), encoding='utf-8').read() != t]
        print('changed: ' + ' '.join(bad) if bad else 'unchanged')
        return 1 if bad else 0
    os.makedirs(argv[2], exist_ok=True)
    for m, t in out.items():
        with open(os.path.join(argv[2], m + '.lean'), 'w', encoding='utf-8') as fh: fh.write(t)
    return 0

if __name__ == '__main__':
    sys.exit(main(sys.argv))
