#!/usr/bin/env python3
"""Translate `maltoolbox/language/classes_factory.py` (the class factory, property C06) into Lean.

Domain `classes` of the second tie (see harness/tie.py, DESIGN.md §I.9).  Syntax directed and thin: one Python
statement becomes one `do` statement (sometimes preceded by a `let` for a value Python evaluates first), every
construct outside the tables below raises `Unsupported`.  Conventions of the generated code:
lean/MalVerif/Py/PreludeClasses.lean.

Static types.  Expressions are typed by a small table-driven inference: `str`, `int`, `float`, `bool`, `V` (a
dynamically typed Python value: the JSON schema and everything taken out of it), `pjs` (an opaque library
object, a `V` in Lean), and the read-only language-graph types `aref` (LanguageGraphAsset object), `step`, `assoc`,
`field`, lists of those.  A statically typed value is injected into `V` where Python stores it into a container.

Aliasing.  Containers are values in the Lean.  The alias check refuses every program in which that could be
observed: a local container that has been stored into another container / appended / bound to a second name /
handed to a function that stores it is *frozen* — changing it in place afterwards is `Unsupported` (re-binding
the name thaws it); a local bound to a part of another container (`x = a[k]`) is a *view* — no container may be
changed in place in that function afterwards; a function result may only be changed in place if the callee
returns a container it created itself.  `for` over a dynamically typed (live) container is refused.

usage: py2lean_classes.py <repo> <outdir> | py2lean_classes.py <repo> --check <dir>
"""
from __future__ import annotations
import ast, os, sys


class Unsupported(Exception):
    pass


SOURCE = 'maltoolbox/language/classes_factory.py'
CLASS = 'LanguageClassesFactory'
METHODS = ['_generate_assets', '_generate_associations', '_create_classes', 'get_association_by_signature']
MODULE_ORDER = ['Factory']

TIE = {
    'order': 60,
    'gen_dir': 'MalVerif/Py/GenClasses',
    'gen_modules': MODULE_ORDER,
    'chain': ['MalVerif.Py.AbsClasses', 'MalVerif.Py.TieClassesBase', 'MalVerif.Py.TieClassesAssets',
              'MalVerif.Py.TieClassesAssoc', 'MalVerif.Py.TieClassesAssocAbs', 'MalVerif.Py.TieClassesSig',
              'MalVerif.Py.TieClassesTop', 'MalVerif.Py.TieClassesPreFix', 'MalVerif.PropsGen.C06'],
    'needs': {'C06': ['MalVerif.Py.TieClassesBase', 'MalVerif.Py.TieClassesAssets', 'MalVerif.Py.TieClassesAssoc',
                      'MalVerif.Py.TieClassesAssocAbs', 'MalVerif.Py.TieClassesSig', 'MalVerif.Py.TieClassesTop',
                      'MalVerif.Py.TieClassesPreFix', 'MalVerif.PropsGen.C06']},
    'sources': {'C06': 'language/classes_factory.py: LanguageClassesFactory._generate_assets, _generate_associations '
                       '(create_association_entry, create_association_with_subentries, create_association_field), '
                       '_create_classes (python_jsonschema_objects is a parameter: Pjs), get_association_by_signature'},
}

# ------------------------------------------------------------------ typing tables (trusted, like ATTRS of py2lean.py)
# attribute reads on language-graph objects: (object type, attribute) -> (Lean template, result type)
ATTRS = {
    ('lg', 'assets'): ('lg.assets', ('list', 'aref')),
    ('lg', 'associations'): ('lg.associations', ('list', 'assoc')),
    ('aref', 'name'): ('(lg.asset {0}).name', 'str'),
    ('aref', 'super_assets'): ('(lg.asset {0}).super_assets', ('list', 'aref')),
    ('aref', 'attack_steps'): ('(lg.asset {0}).attack_steps', ('list', 'step')),
    ('step', 'name'): ('{0}.name', 'str'),
    ('step', 'type'): ('{0}.type', 'str'),
    ('step', 'ttc'): ('{0}.ttc', 'V'),
    ('assoc', 'name'): ('{0}.name', 'str'),
    ('assoc', 'left_field'): ('{0}.left_field', 'field'),
    ('assoc', 'right_field'): ('{0}.right_field', 'field'),
    ('field', 'asset'): ('{0}.asset', 'aref'),
    ('field', 'fieldname'): ('{0}.fieldname', 'str'),
    ('field', 'maximum'): ('{0}.maximum', 'V'),
}
SELF_ATTRS = {'json_schema': 'V', 'ns': 'pjs'}
LEAN_TY = {'str': 'String', 'int': 'Int', 'float': 'V', 'bool': 'Bool', 'V': 'V', 'pjs': 'V', 'aref': 'ARef',
           'step': 'LGStep', 'assoc': 'LGAssoc', 'field': 'LGField', 'self': 'Self'}
# parameter annotations
ANN = {'str': 'str', 'dict': 'V', 'SchemaGeneratedClass': 'assoc'}
EXC = {'LookupError': 'CErr.lookupError'}
LEAN_KEYWORDS = {'field': 'field_', 'at': 'at_', 'from': 'from_', 'end': 'end_', 'open': 'open_', 'type': 'type_',
                 'instance': 'instance_', 'class': 'class_', 'def': 'def_', 'namespace': 'namespace_'}


def lean_ty(t):
    if isinstance(t, tuple) and t[0] == 'list':
        return f'(List {lean_ty(t[1])})'
    return LEAN_TY[t]


def ident(n):
    return LEAN_KEYWORDS.get(n, n)


def lstr(s):
    out = '"'
    for ch in s:
        if ch == '"': out += '\\"'
        elif ch == '\\': out += '\\\\'
        elif ch == '\n': out += '\\n'
        elif ord(ch) < 32 or ord(ch) > 126: raise Unsupported(f'string literal with character {ch!r}')
        else: out += ch
    return out + '"'


def where(node):
    return f'line {getattr(node, "lineno", "?")}'


def is_logger_call(e):
    return (isinstance(e, ast.Call) and isinstance(e.func, ast.Attribute) and isinstance(e.func.value, ast.Name)
            and e.func.value.id == 'logger')


class FnInfo:
    """what callers need to know of a translated function"""
    def __init__(self, name, lean_name, node, is_method):
        self.name, self.lean_name, self.node, self.is_method = name, lean_name, node, is_method
        self.params = []            # [(python name, type)]
        self.uses_self = False
        self.mut_self = False
        self.uses_pjs = False
        self.mut_param = None       # name of a parameter changed in place (returned instead of None)
        self.stores_params = set()  # parameters the body stores into some container
        self.ret = None             # static type of the returned value (None: no value)
        self.ret_fresh = False      # returns a container created by the function itself
        self.calls = set()


class Ctx:
    """per-function translation state"""
    def __init__(self, tr, info):
        self.tr, self.info = tr, info
        self.types = {}             # local name -> static type
        self.declared = []          # stack of sets of names declared in the enclosing Lean blocks
        self.frozen = set()
        self.views = set()
        self.fresh = set()          # locals currently bound to a container created here
        self.tmp = 0
        self.reassigned = set()

    def new_tmp(self):
        self.tmp += 1
        return f'v_{self.tmp}'

    def is_declared(self, n):
        return any(n in s for s in self.declared)


class Translator:
    def __init__(self, repo):
        self.repo = repo
        path = os.path.join(repo, SOURCE)
        try:
            src = open(path, encoding='utf-8').read()
        except OSError as e:
            raise Unsupported(f'cannot read {SOURCE}: {e}')
        self.tree = ast.parse(src)
        self.module_name = SOURCE[:-3].replace('/', '.')
        self.cls = next((n for n in self.tree.body if isinstance(n, ast.ClassDef) and n.name == CLASS), None)
        if self.cls is None:
            raise Unsupported(f'class {CLASS} not found')
        self.check_module()
        self.fns = {}               # python name -> FnInfo (methods and nested functions)
        self.order = []

    # -------------------------------------------------------------- module-level assumptions
    def check_module(self):
        ok_pjs = any(isinstance(n, ast.Import) and any(a.name == 'python_jsonschema_objects' and a.asname == 'pjs'
                     for a in n.names) for n in self.tree.body)
        if not ok_pjs:
            raise Unsupported('`import python_jsonschema_objects as pjs` not found')
        if self.cls.bases or self.cls.decorator_list:
            raise Unsupported(f'{CLASS} has base classes / decorators')
        for n in self.cls.body:
            if isinstance(n, ast.FunctionDef) and n.name in ('__getattr__', '__getattribute__', '__setattr__'):
                raise Unsupported(f'{CLASS} defines {n.name}')
        init = next((n for n in self.cls.body if isinstance(n, ast.FunctionDef) and n.name == '__init__'), None)
        if init is None:
            raise Unsupported('no __init__')
        # __init__ must set lang_graph from its parameter, json_schema to {}, and call _create_classes: nothing else
        seen = []
        for st in init.body:
            if isinstance(st, ast.Expr) and isinstance(st.value, ast.Constant): continue
            if isinstance(st, (ast.Assign, ast.AnnAssign)):
                tgt = st.targets[0] if isinstance(st, ast.Assign) else st.target
                if isinstance(tgt, ast.Attribute) and isinstance(tgt.value, ast.Name) and tgt.value.id == 'self':
                    seen.append(tgt.attr)
                    if tgt.attr == 'lang_graph' and not (isinstance(st.value, ast.Name) and st.value.id == 'lang_graph'):
                        raise Unsupported('__init__: lang_graph is not the parameter')
                    if tgt.attr == 'json_schema' and not (isinstance(st.value, ast.Dict) and not st.value.keys):
                        raise Unsupported('__init__: json_schema is not initialised with {}')
                    continue
            if (isinstance(st, ast.Expr) and isinstance(st.value, ast.Call) and isinstance(st.value.func, ast.Attribute)
                    and isinstance(st.value.func.value, ast.Name) and st.value.func.value.id == 'self'
                    and st.value.func.attr == '_create_classes' and not st.value.args and not st.value.keywords):
                seen.append('()')
                continue
            raise Unsupported(f'__init__: statement at {where(st)} not understood')
        if seen != ['lang_graph', 'json_schema', '()']:
            raise Unsupported(f'__init__ does {seen}, expected lang_graph, json_schema, _create_classes()')

    # -------------------------------------------------------------- collection of functions
    def collect(self):
        for m in METHODS:
            node = next((n for n in self.cls.body if isinstance(n, ast.FunctionDef) and n.name == m), None)
            if node is None:
                raise Unsupported(f'method {m} not found')
            self.add_fn(node, m, f'factory_{m.lstrip("_")}', True)
            for st in node.body:
                if isinstance(st, ast.FunctionDef):
                    self.add_fn(st, st.name, f'factory_{m.lstrip("_")}_{st.name}', False)

    def add_fn(self, node, name, lean_name, is_method):
        if name in self.fns:
            raise Unsupported(f'two functions named {name}')
        if node.decorator_list:
            raise Unsupported(f'{name}: decorators')
        a = node.args
        if a.vararg or a.kwarg or a.kwonlyargs or a.defaults or a.posonlyargs:
            raise Unsupported(f'{name}: parameter list not understood')
        info = FnInfo(name, lean_name, node, is_method)
        params = list(a.args)
        if is_method:
            if not params or params[0].arg != 'self':
                raise Unsupported(f'{name}: no self')
            params = params[1:]
        for p in params:
            info.params.append((p.arg, self.ann_type(p.annotation, name, p.arg)))
        self.fns[name] = info

    def ann_type(self, ann, fn, p):
        if isinstance(ann, ast.Name) and ann.id in ANN:
            return ANN[ann.id]
        if (isinstance(ann, ast.Subscript) and isinstance(ann.value, ast.Name) and ann.value.id == 'Literal'):
            elts = ann.slice.elts if isinstance(ann.slice, ast.Tuple) else [ann.slice]
            if all(isinstance(e, ast.Constant) and isinstance(e.value, str) for e in elts):
                return 'str'
        raise Unsupported(f'{fn}: annotation of parameter {p} not understood')

    # -------------------------------------------------------------- effect analysis (fixpoint over the call graph)
    def analyse(self):
        for info in self.fns.values():
            own = [n for st in info.node.body if not isinstance(st, ast.FunctionDef) for n in ast.walk(st)]
            for n in own:
                if isinstance(n, ast.Name) and n.id == 'self': info.uses_self = True
                if isinstance(n, ast.Name) and n.id == 'pjs': info.uses_pjs = True
                if isinstance(n, ast.Call):
                    f = n.func
                    if isinstance(f, ast.Name) and f.id in self.fns: info.calls.add(f.id)
                    if (isinstance(f, ast.Attribute) and isinstance(f.value, ast.Name) and f.value.id == 'self'
                            and f.attr in self.fns): info.calls.add(f.attr)
            for st in own:
                tgts = []
                if isinstance(st, ast.Assign): tgts = st.targets
                elif isinstance(st, ast.Delete): tgts = st.targets
                elif isinstance(st, ast.AugAssign): tgts = [st.target]
                elif (isinstance(st, ast.Call) and isinstance(st.func, ast.Attribute)
                      and st.func.attr in ('append', 'extend', 'update', 'pop', 'clear', 'insert', 'remove', 'setdefault')):
                    tgts = [st.func.value]
                for t in tgts:
                    r = self.root_of(t)
                    if r == 'self': info.mut_self = True
                    pn = [p for p, _ in info.params]
                    if r in pn and isinstance(t, (ast.Subscript,)) or (r in pn and not isinstance(st, (ast.Assign, ast.Delete, ast.AugAssign))):
                        if info.mut_param not in (None, r):
                            raise Unsupported(f'{info.name}: changes two parameters in place')
                        info.mut_param = r
        changed = True
        while changed:
            changed = False
            for info in self.fns.values():
                for c in info.calls:
                    ci = self.fns[c]
                    for attr in ('uses_self', 'mut_self', 'uses_pjs'):
                        if getattr(ci, attr) and not getattr(info, attr):
                            setattr(info, attr, True); changed = True
        # translation order: callees first
        done, order = set(), []
        def visit(n, stack=()):
            if n in done: return
            if n in stack: raise Unsupported(f'recursion through {n}')
            for c in sorted(self.fns[n].calls): visit(c, stack + (n,))
            done.add(n); order.append(n)
        for n in self.fns: visit(n)
        self.order = order

    def root_of(self, e):
        while isinstance(e, (ast.Subscript, ast.Attribute)):
            if isinstance(e, ast.Attribute) and isinstance(e.value, ast.Name) and e.value.id == 'self':
                return 'self'
            e = e.value
        return e.id if isinstance(e, ast.Name) else None

    # -------------------------------------------------------------- expressions
    # expr(e, cx) -> (lean code, static type); the code may contain `(← …)` (evaluation order = textual order)
    def to_v(self, code, ty):
        if ty in ('V', 'pjs', 'float'): return code
        if ty == 'str': return f'(V.str {code})'
        if ty == 'int': return f'(V.int {code})'
        if ty == 'bool': return f'(V.bool {code})'
        raise Unsupported(f'a value of type {ty} stored into a Python container')

    def expr(self, e, cx):
        if isinstance(e, ast.Constant):
            v = e.value
            if isinstance(v, bool): return ('true' if v else 'false'), 'bool'
            if isinstance(v, str): return lstr(v), 'str'
            if isinstance(v, int): return (f'({v})' if v < 0 else str(v)), 'int'
            if isinstance(v, float):
                r = repr(v)
                if r in ('nan', 'inf', '-inf'): raise Unsupported('non-finite float literal')
                return f'(V.num {lstr(r)})', 'float'
            if v is None: return 'V.none', 'V'
            raise Unsupported(f'constant {v!r} at {where(e)}')
        if isinstance(e, ast.Name):
            if e.id == '__name__': return lstr(self.module_name), 'str'
            if e.id in cx.types:
                if not cx.is_declared(e.id):
                    raise Unsupported(f'{cx.info.name}: local {e.id} read at {where(e)} outside the block that assigns it')
                return ident(e.id), cx.types[e.id]
            raise Unsupported(f'{cx.info.name}: name {e.id} at {where(e)}')
        if isinstance(e, ast.Attribute):
            return self.attribute(e, cx)
        if isinstance(e, ast.Dict):
            items = []
            for k, v in zip(e.keys, e.values):
                if k is None: raise Unsupported('** in a dict display')
                kc, kt = self.expr(k, cx)
                if kt != 'str' or '←' in kc: raise Unsupported(f'dict display with a key that is not a plain str at {where(e)}')
                vc, vt = self.expr(v, cx)
                items.append(f'({kc}, {self.to_v(vc, vt)})')
            return f'(mkDict [{", ".join(items)}])', 'V'
        if isinstance(e, (ast.List, ast.Tuple)):
            elts = [self.expr(x, cx) for x in e.elts]
            if isinstance(e, ast.Tuple) and elts and all(t == 'str' for _, t in elts):
                return f'[{", ".join(c for c, _ in elts)}]', ('list', 'str')
            if isinstance(e, ast.Tuple): raise Unsupported(f'tuple at {where(e)}')
            return f'(V.list [{", ".join(self.to_v(c, t) for c, t in elts)}])', 'V'
        if isinstance(e, ast.ListComp):
            if len(e.generators) != 1 or e.generators[0].ifs or e.generators[0].is_async:
                raise Unsupported(f'comprehension at {where(e)}')
            g = e.generators[0]
            if not isinstance(g.target, ast.Name): raise Unsupported('comprehension target')
            it, itt = self.expr(g.iter, cx)
            if not (isinstance(itt, tuple) and itt[0] == 'list'): raise Unsupported('comprehension over a dynamically typed value')
            v = g.target.id
            if v in cx.types: raise Unsupported(f'comprehension variable {v} shadows a local')
            cx.types[v] = itt[1]; cx.declared.append({v})
            bc, bt = self.expr(e.elt, cx)
            cx.declared.pop(); del cx.types[v]
            bv = self.to_v(bc, bt)
            if '←' in bv:
                return f'(V.list (← ({it}).mapM (fun {ident(v)} => (do pure {bv} : M V))))', 'V'
            return f'(V.list (({it}).map (fun {ident(v)} => {bv})))', 'V'
        if isinstance(e, ast.Subscript):
            bc, bt = self.expr(e.value, cx)
            if bt != 'V': raise Unsupported(f'subscript on a value of type {bt} at {where(e)}')
            kc, kt = self.expr(e.slice, cx)
            return f'(← getItem {bc} {self.to_v(kc, kt)})', 'V'
        if isinstance(e, ast.BinOp):
            if isinstance(e.op, ast.Add):
                lc, lt = self.expr(e.left, cx); rc, rt = self.expr(e.right, cx)
                if lt == rt == 'str': return f'({lc} ++ {rc})', 'str'
                if lt == rt == 'int': return f'({lc} + {rc})', 'int'
                raise Unsupported(f'`+` on {lt} and {rt} at {where(e)}')
            if isinstance(e.op, ast.Mod):
                return self.percent(e, cx)
            raise Unsupported(f'operator at {where(e)}')
        if isinstance(e, ast.JoinedStr):
            parts = []
            for p in e.values:
                if isinstance(p, ast.Constant) and isinstance(p.value, str): parts.append(lstr(p.value))
                elif isinstance(p, ast.FormattedValue) and p.conversion == -1 and p.format_spec is None:
                    c, t = self.expr(p.value, cx)
                    if t != 'str': raise Unsupported('f-string field that is not a str')
                    parts.append(c)
                else: raise Unsupported('f-string')
            return '(' + ' ++ '.join(parts or ['""']) + ')', 'str'
        if isinstance(e, (ast.Compare, ast.BoolOp)) or (isinstance(e, ast.UnaryOp) and isinstance(e.op, ast.Not)):
            return self.test(e, cx), 'bool'
        if isinstance(e, ast.Call):
            return self.call(e, cx)
        raise Unsupported(f'{cx.info.name}: expression {type(e).__name__} at {where(e)}')

    def percent(self, e, cx):
        """'…%s…' % (a, b)  with a literal format whose only directives are %s, applied to str values"""
        if not (isinstance(e.left, ast.Constant) and isinstance(e.left.value, str)):
            raise Unsupported(f'`%` with a format that is not a literal at {where(e)}')
        fmt = e.left.value
        args = list(e.right.elts) if isinstance(e.right, ast.Tuple) else [e.right]
        pieces = fmt.split('%s')
        if any('%' in p for p in pieces): raise Unsupported(f'format directive other than %s at {where(e)}')
        if len(pieces) != len(args) + 1: raise Unsupported(f'format / argument count at {where(e)}')
        out = []
        for i, p in enumerate(pieces):
            if p: out.append(lstr(p))
            if i < len(args):
                c, t = self.expr(args[i], cx)
                if t != 'str': raise Unsupported(f'%s applied to a value of type {t} at {where(e)}')
                out.append(c)
        return '(' + ' ++ '.join(out or ['""']) + ')', 'str'

    def attribute(self, e, cx):
        # self.lang_graph / self.json_schema / self.ns
        if isinstance(e.value, ast.Name) and e.value.id == 'self':
            if e.attr == 'lang_graph': return 'lg', 'lg'
            if e.attr in SELF_ATTRS: return f'self.{e.attr}', SELF_ATTRS[e.attr]
            raise Unsupported(f'attribute self.{e.attr} at {where(e)}')
        bc, bt = self.expr(e.value, cx)
        if (bt, e.attr) in ATTRS:
            tmpl, rt = ATTRS[(bt, e.attr)]
            return tmpl.format(bc), rt
        raise Unsupported(f'attribute .{e.attr} of a value of type {bt} at {where(e)}')

    def truth(self, e, cx):
        """bool(e)"""
        if isinstance(e, (ast.Compare, ast.BoolOp)) or (isinstance(e, ast.UnaryOp) and isinstance(e.op, ast.Not)):
            return self.test(e, cx)
        c, t = self.expr(e, cx)
        if t == 'bool': return c
        if t == 'V': return f'(Visitor.truthy {c})'
        if t == 'str': return f'({c} != "")'
        if t == 'int': return f'({c} != 0)'
        if isinstance(t, tuple) and t[0] == 'list': return f'(!({c}).isEmpty)'
        raise Unsupported(f'truth value of a {t} at {where(e)}')

    def test(self, e, cx):
        if isinstance(e, ast.UnaryOp) and isinstance(e.op, ast.Not):
            return f'(!{self.truth(e.operand, cx)})'
        if isinstance(e, ast.BoolOp):
            # short circuit kept: a later operand is only evaluated when the earlier ones decide nothing
            vals = [self.truth(v, cx) for v in e.values]
            acc = vals[-1]
            for v in reversed(vals[:-1]):
                if '←' in acc:
                    acc = (f'(← (if {v} then (do pure {acc} : M Bool) else pure false))' if isinstance(e.op, ast.And)
                           else f'(← (if {v} then pure true else (do pure {acc} : M Bool)))')
                else:
                    acc = f'({v} && {acc})' if isinstance(e.op, ast.And) else f'({v} || {acc})'
            return acc
        if isinstance(e, ast.Compare):
            if len(e.ops) != 1: raise Unsupported(f'chained comparison at {where(e)}')
            op, l, r = e.ops[0], e.left, e.comparators[0]
            if isinstance(op, (ast.Is, ast.IsNot)):
                if not (isinstance(r, ast.Constant) and r.value is None): raise Unsupported('`is` with something else than None')
                c, t = self.expr(l, cx)
                if t != 'V': raise Unsupported(f'`is None` on a value of type {t} at {where(e)}')
                return f'(Visitor.isNone {c})' if isinstance(op, ast.Is) else f'(!(Visitor.isNone {c}))'
            lc, lt = self.expr(l, cx); rc, rt = self.expr(r, cx)
            if isinstance(op, (ast.Eq, ast.NotEq)):
                if lt == rt and lt in ('str', 'int', 'bool'): c = f'({lc} == {rc})'
                elif 'V' in (lt, rt): c = f'(V.eq {self.to_v(lc, lt)} {self.to_v(rc, rt)})'
                else: raise Unsupported(f'`==` on {lt} and {rt} at {where(e)}')
                return c if isinstance(op, ast.Eq) else f'(!{c})'
            if isinstance(op, (ast.Gt, ast.Lt, ast.GtE, ast.LtE)):
                if lt == rt == 'int':
                    sym = {ast.Gt: '>', ast.Lt: '<', ast.GtE: '≥', ast.LtE: '≤'}[type(op)]
                    return f'(decide ({lc} {sym} {rc}))'
                raise Unsupported(f'ordering of {lt} and {rt} at {where(e)}')
            if isinstance(op, (ast.In, ast.NotIn)):
                if rt != 'V': raise Unsupported(f'`in` on a value of type {rt} at {where(e)}')
                c = f'(← isIn {self.to_v(lc, lt)} {rc})'
                return c if isinstance(op, ast.In) else f'(!{c})'
        raise Unsupported(f'test at {where(e)}')

    def call(self, e, cx):
        f = e.func
        if isinstance(f, ast.Name):
            if f.id == 'len' and len(e.args) == 1 and not e.keywords:
                c, t = self.expr(e.args[0], cx)
                if isinstance(t, tuple) and t[0] == 'list': return f'(Int.ofNat ({c}).length)', 'int'
                if t == 'V': return f'(← lenOf {c})', 'int'
                raise Unsupported(f'len of a {t}')
            if f.id == 'list' and len(e.args) == 1 and not e.keywords:
                c, t = self.expr(e.args[0], cx)
                if isinstance(t, tuple) and t[0] == 'list': return c, t
                raise Unsupported('list() of a dynamically typed value')
            if f.id == 'filter' and len(e.args) == 2 and not e.keywords:
                lam = e.args[0]
                if not (isinstance(lam, ast.Lambda) and len(lam.args.args) == 1 and not lam.args.defaults):
                    raise Unsupported('filter without a one-parameter lambda')
                c, t = self.expr(e.args[1], cx)
                if not (isinstance(t, tuple) and t[0] == 'list'): raise Unsupported('filter over a dynamically typed value')
                v = lam.args.args[0].arg
                if v in cx.types: raise Unsupported(f'lambda parameter {v} shadows a local')
                cx.types[v] = t[1]; cx.declared.append({v})
                b = self.truth(lam.body, cx)
                cx.declared.pop(); del cx.types[v]
                if '←' in b: raise Unsupported('lambda whose body may raise')
                return f'(({c}).filter (fun {ident(v)} => {b}))', t
            if f.id == 'getattr' and len(e.args) == 2 and not e.keywords:
                oc, ot = self.expr(e.args[0], cx); nc, nt = self.expr(e.args[1], cx)
                if ot == 'assoc' and nt == 'str': return f'(← getattrField {oc} {nc})', 'field'
                raise Unsupported(f'getattr on a {ot}')
            if f.id in self.fns and not self.fns[f.id].is_method:
                return self.user_call(self.fns[f.id], e, cx)
            raise Unsupported(f'call of {f.id} at {where(e)}')
        if isinstance(f, ast.Attribute):
            if isinstance(f.value, ast.Name) and f.value.id == 'pjs' and f.attr == 'ObjectBuilder':
                if len(e.args) != 1 or e.keywords: raise Unsupported('pjs.ObjectBuilder arguments')
                c, t = self.expr(e.args[0], cx)
                if t != 'V': raise Unsupported('pjs.ObjectBuilder argument')
                return f'(← pjs.ObjectBuilder {c})', 'pjs'
            if f.attr == 'build_classes':
                c, t = self.expr(f.value, cx)
                if (t != 'pjs' or e.args or len(e.keywords) != 1 or e.keywords[0].arg != 'standardize_names'):
                    raise Unsupported('build_classes call')
                kc, kt = self.expr(e.keywords[0].value, cx)
                return f'(← pjs.build_classes {c} {self.to_v(kc, kt)})', 'pjs'
            if f.attr == 'get' and len(e.args) in (1, 2) and not e.keywords:
                # d.get(k) / d.get(k, default) on a dynamically typed value (AttributeError unless it is a dict)
                c, t = self.expr(f.value, cx)
                if t != 'V': raise Unsupported(f'.get on a value of type {t} at {where(e)}')
                kc, kt = self.expr(e.args[0], cx)
                if len(e.args) == 2:
                    dc, dt = self.expr(e.args[1], cx)
                    dv = self.to_v(dc, dt)
                else:
                    dv = 'V.none'
                return f'(← getOr {c} {self.to_v(kc, kt)} {dv})', 'V'
            if f.attr == 'replace' and len(e.args) == 2 and not e.keywords:
                c, t = self.expr(f.value, cx)
                a = [self.expr(x, cx) for x in e.args]
                if t == 'str' and all(x[1] == 'str' for x in a):
                    return f'(strReplace {c} {a[0][0]} {a[1][0]})', 'str'
                raise Unsupported('replace on a non-str')
            if isinstance(f.value, ast.Name) and f.value.id == 'self' and f.attr in self.fns and self.fns[f.attr].is_method:
                return self.user_call(self.fns[f.attr], e, cx)
        raise Unsupported(f'{cx.info.name}: call at {where(e)}')

    def user_call(self, fi, e, cx):
        """a call used as an expression: the callee must not change self or a parameter"""
        if fi.mut_self or fi.mut_param: raise Unsupported(f'call of {fi.name} inside an expression')
        if fi.ret is None: raise Unsupported(f'{fi.name} returns no value')
        return f'(← {self.call_code(fi, e, cx)})', fi.ret

    def call_code(self, fi, e, cx):
        if e.keywords or len(e.args) != len(fi.params): raise Unsupported(f'arguments of {fi.name} at {where(e)}')
        args = []
        for a, (pn, pt) in zip(e.args, fi.params):
            c, t = self.expr(a, cx)
            if t != pt: raise Unsupported(f'{fi.name}: argument {pn} has type {t}, expected {pt}')
            if '←' in c: raise Unsupported(f'{fi.name}: argument {pn} may raise')
            if pn in fi.stores_params and isinstance(a, ast.Name): cx.frozen.add(a.id)
            args.append(c)
        pre = ['pjs'] if fi.uses_pjs else []
        pre += ['lg'] + (['self'] if fi.uses_self else [])
        return ' '.join([fi.lean_name] + pre + args)

    # -------------------------------------------------------------- statements
    def path_of(self, t, cx):
        """a subscript chain: (root kind, root python name, [key codes])"""
        keys = []
        while isinstance(t, ast.Subscript):
            kc, kt = self.expr(t.slice, cx)
            if '←' in kc: raise Unsupported(f'subscript key that may raise at {where(t)}')
            keys.append(self.to_v(kc, kt))
            t = t.value
        keys.reverse()
        if isinstance(t, ast.Attribute) and isinstance(t.value, ast.Name) and t.value.id == 'self' and t.attr == 'json_schema':
            return 'self', 'json_schema', keys
        if isinstance(t, ast.Name) and cx.types.get(t.id) == 'V' and cx.is_declared(t.id):
            return 'local', t.id, keys
        raise Unsupported(f'{cx.info.name}: container at {where(t)} is not a local value or self.json_schema')

    def mutate(self, kind, name, keys, fn_code, cx, node):
        """the statement that changes the container at root[keys]; `fn_code(c)` is the change of the container `c`"""
        if cx.views:
            raise Unsupported(f'{cx.info.name}: a container is changed at {where(node)} while {sorted(cx.views)} refer into a container')
        if kind == 'local':
            if name in cx.frozen:
                raise Unsupported(f'{cx.info.name}: {name} is changed in place at {where(node)} after it was stored / aliased')
            root = ident(name)
            cx.reassigned.add(name)
        else:
            root = 'self.json_schema'
        act = f'modPath {root} [{", ".join(keys)}] (fun o => {fn_code("o")})' if keys else fn_code(root)
        if kind == 'local':
            return [f'{root} ← {act}']
        return [f'self := {{ self with json_schema := (← {act}) }}']

    def freeze_value(self, v, cx):
        """the value of expression `v` is stored into a container: a local container named there is frozen"""
        for n in ast.walk(v):
            if isinstance(n, ast.Name) and cx.types.get(n.id) == 'V':
                cx.frozen.add(n.id)

    def bind_first(self, code, cx, out):
        """Python evaluates the right-hand side before the target: bind it when it can raise"""
        if '←' not in code: return code
        t = cx.new_tmp()
        out.append(f'let {t} := {code}')
        return t

    def stmts(self, body, cx, top=False):
        out = []
        cx.declared.append(set())
        for i, st in enumerate(body):
            out += self.stmt(st, cx, body[i + 1:])
        cx.declared.pop()
        return out

    def assigned_in(self, sts):
        s = set()
        for st in sts:
            for n in ast.walk(st):
                if isinstance(n, ast.Assign):
                    for t in n.targets:
                        if isinstance(t, ast.Name): s.add(t.id)
        return s

    def names_in(self, sts):
        return {n.id for st in sts for n in ast.walk(st) if isinstance(n, ast.Name)}

    def stmt(self, st, cx, rest):
        info = cx.info
        if isinstance(st, ast.FunctionDef):
            return []                                   # nested function: translated as a definition of its own
        if isinstance(st, ast.Expr) and isinstance(st.value, ast.Constant) and isinstance(st.value.value, str):
            return []                                   # docstring
        if isinstance(st, ast.Expr) and is_logger_call(st.value):
            return []                                   # logging
        if isinstance(st, ast.Pass):
            return []
        if isinstance(st, ast.Assign):
            if len(st.targets) != 1: raise Unsupported(f'multiple assignment at {where(st)}')
            return self.assign(st.targets[0], st.value, cx, st)
        if isinstance(st, ast.AnnAssign) and st.value is not None:
            return self.assign(st.target, st.value, cx, st)
        if isinstance(st, ast.Delete):
            if len(st.targets) != 1 or not isinstance(st.targets[0], ast.Subscript):
                raise Unsupported(f'del at {where(st)}')
            kind, name, keys = self.path_of(st.targets[0], cx)
            return self.mutate(kind, name, keys[:-1], lambda o: f'delItem {o} {keys[-1]}', cx, st)
        if isinstance(st, ast.Expr) and isinstance(st.value, ast.Call):
            return self.call_stmt(st.value, cx, st)
        if isinstance(st, ast.If):
            return self.if_stmt(st, cx, rest)
        if isinstance(st, ast.For):
            return self.for_stmt(st, cx)
        if isinstance(st, ast.Return):
            if st.value is None:
                if info.ret is not None: raise Unsupported(f'{info.name}: bare return in a function that returns a value')
                return [f'return {self.result_code(info, None)}']
            c, t = self.expr(st.value, cx)
            if info.ret is None: info.ret = t
            if info.ret != t: raise Unsupported(f'{info.name}: returns {t} and {info.ret}')
            if isinstance(st.value, ast.Name) and t == 'V':
                info.ret_fresh_all = getattr(info, 'ret_fresh_all', True) and st.value.id in cx.fresh and st.value.id not in cx.frozen
            elif t == 'V':
                info.ret_fresh_all = False
            return [f'return {self.result_code(info, c)}']
        if isinstance(st, ast.Raise):
            if st.cause is not None or st.exc is None: raise Unsupported(f'raise at {where(st)}')
            ex = st.exc
            if isinstance(ex, ast.Call):
                for a in ex.args:                       # the message is evaluated (it must be total) and dropped
                    c, t = self.expr(a, cx)
                    if '←' in c: raise Unsupported(f'exception argument that may raise at {where(st)}')
                if ex.keywords: raise Unsupported('exception keywords')
                ex = ex.func
            if isinstance(ex, ast.Name) and ex.id in EXC:
                return [f'throw {EXC[ex.id]}']
            raise Unsupported(f'exception class at {where(st)}')
        raise Unsupported(f'{info.name}: statement {type(st).__name__} at {where(st)}')

    def result_code(self, info, value):
        if info.mut_self:
            return 'self' if value is None else f'(self, {value})'
        if info.mut_param and value is None:
            return ident(info.mut_param)
        if value is None: return '()'
        return value

    def assign(self, tgt, value, cx, st):
        out = []
        if isinstance(tgt, ast.Name):
            n = tgt.id
            if n == 'self' or n in self.fns: raise Unsupported(f'assignment to {n}')
            c, t = self.expr(value, cx)
            if t in ('lg',): raise Unsupported('the language graph bound to a local')
            # aliasing
            if t == 'V':
                if isinstance(value, ast.Name):
                    cx.frozen.add(value.id); cx.frozen.add(n); cx.fresh.discard(n)
                elif isinstance(value, (ast.Subscript, ast.Attribute)):
                    cx.views.add(n); cx.frozen.add(n); cx.fresh.discard(n)
                elif isinstance(value, (ast.Dict, ast.List, ast.ListComp, ast.Constant)):
                    cx.frozen.discard(n); cx.fresh.add(n)
                    self.freeze_value(value, cx)
                elif isinstance(value, ast.Call):
                    callee = value.func.id if isinstance(value.func, ast.Name) else getattr(value.func, 'attr', None)
                    fi = self.fns.get(callee)
                    cx.frozen.discard(n)
                    if fi is not None and fi.ret_fresh: cx.fresh.add(n)
                    else: cx.frozen.add(n); cx.fresh.discard(n)
                else:
                    cx.frozen.add(n); cx.fresh.discard(n)
            if n in cx.types and cx.is_declared(n):
                if cx.types[n] == 'V' and t != 'V': c, t = self.to_v(c, t), 'V'
                if cx.types[n] != t: raise Unsupported(f'{cx.info.name}: {n} is assigned a {t} and a {cx.types[n]}')
                cx.reassigned.add(n)
                return [f'{ident(n)} := {c}']
            if n in cx.types: raise Unsupported(f'{cx.info.name}: {n} assigned in two unrelated blocks')
            if t == 'float': t = 'V'
            cx.types[n] = t
            cx.declared[-1].add(n)
            return [f'let mut {ident(n)} : {lean_ty(t)} := {c}']
        if isinstance(tgt, ast.Attribute) and isinstance(tgt.value, ast.Name) and tgt.value.id == 'self':
            if tgt.attr not in SELF_ATTRS: raise Unsupported(f'assignment to self.{tgt.attr}')
            c, t = self.expr(value, cx)
            if t != SELF_ATTRS[tgt.attr]: raise Unsupported(f'self.{tgt.attr} is assigned a {t}')
            if tgt.attr == 'json_schema':
                if cx.views: raise Unsupported('self.json_schema re-bound while a local refers into it')
                self.freeze_value(value, cx)
            return [f'self := {{ self with {tgt.attr} := {c} }}']
        if isinstance(tgt, ast.Subscript):
            c, t = self.expr(value, cx)
            v = self.bind_first(self.to_v(c, t), cx, out)
            kind, name, keys = self.path_of(tgt, cx)
            out += self.mutate(kind, name, keys[:-1], lambda o: f'setItem {o} {keys[-1]} {v}', cx, st)
            self.freeze_value(value, cx)
            return out
        raise Unsupported(f'assignment target at {where(st)}')

    def call_stmt(self, e, cx, st):
        f = e.func
        # container.append(x)
        if isinstance(f, ast.Attribute) and f.attr == 'append' and len(e.args) == 1 and not e.keywords:
            kind, name, keys = self.path_of(f.value, cx)
            c, t = self.expr(e.args[0], cx)
            v = self.to_v(c, t)
            fn = (lambda o: f'(do appendTo {o} {v} : M V)') if '←' in v else (lambda o: f'appendTo {o} {v}')
            out = self.mutate(kind, name, keys, fn, cx, st)
            self.freeze_value(e.args[0], cx)
            return out
        fi = None
        if isinstance(f, ast.Name) and f.id in self.fns and not self.fns[f.id].is_method: fi = self.fns[f.id]
        if (isinstance(f, ast.Attribute) and isinstance(f.value, ast.Name) and f.value.id == 'self'
                and f.attr in self.fns and self.fns[f.attr].is_method): fi = self.fns[f.attr]
        if fi is None: raise Unsupported(f'{cx.info.name}: call statement at {where(st)}')
        code = self.call_code(fi, e, cx)
        if fi.mut_self:
            if cx.views: raise Unsupported(f'{fi.name} changes self while a local refers into a container')
            if fi.ret is not None: raise Unsupported(f'{fi.name}: result dropped')
            return [f'self ← {code}']
        if fi.mut_param:
            idx = [p for p, _ in fi.params].index(fi.mut_param)
            a = e.args[idx]
            if not (isinstance(a, ast.Name) and cx.types.get(a.id) == 'V'):
                raise Unsupported(f'{fi.name} changes its argument {fi.mut_param} in place: the argument must be a local')
            if a.id in cx.frozen or cx.views:
                raise Unsupported(f'{cx.info.name}: {a.id} is changed in place by {fi.name} at {where(st)} after it was stored / aliased')
            cx.reassigned.add(a.id)
            return [f'{ident(a.id)} ← {code}']
        raise Unsupported(f'{cx.info.name}: call of {fi.name} as a statement has no effect that is modelled')

    def if_stmt(self, st, cx, rest):
        # `if logger.isEnabledFor(..):` whose body only logs
        if is_logger_call(st.test) and not st.orelse and all(isinstance(b, ast.Expr) and is_logger_call(b.value) for b in st.body):
            return []
        out = []
        # locals first assigned in the branches and used afterwards: declared in front, every branch must assign them
        new = [n for n in sorted(self.assigned_in(st.body) | self.assigned_in(st.orelse)) if n not in cx.types]
        later = self.names_in(rest)
        hoisted = [n for n in new if n in later]
        for n in hoisted:
            if not (n in self.top_assigned(st.body) and n in self.top_assigned(st.orelse)):
                raise Unsupported(f'{cx.info.name}: {n} is not assigned on every path through the `if` at {where(st)}')
            cx.types[n] = 'V'; cx.declared[-1].add(n); cx.reassigned.add(n)
            out.append(f'let mut {ident(n)} : V := V.unbound')
        test = self.truth(st.test, cx)
        fz, vw, fr = set(cx.frozen), set(cx.views), set(cx.fresh)
        a = self.stmts(st.body, cx)
        fz1, vw1, fr1 = cx.frozen, cx.views, cx.fresh
        cx.frozen, cx.views, cx.fresh = set(fz), set(vw), set(fr)
        b = self.stmts(st.orelse, cx) if st.orelse else []
        cx.frozen |= fz1; cx.views |= vw1; cx.fresh &= fr1
        out.append(f'if {test} then')
        out += ['  ' + l for l in (a or ['pure ()'])]
        if st.orelse:
            out.append('else')
            out += ['  ' + l for l in (b or ['pure ()'])]
        return out

    def top_assigned(self, sts):
        return {t.id for s in sts if isinstance(s, ast.Assign) for t in s.targets if isinstance(t, ast.Name)}

    def for_stmt(self, st, cx):
        if st.orelse or not isinstance(st.target, ast.Name): raise Unsupported(f'for at {where(st)}')
        it, itt = self.expr(st.iter, cx)
        if not (isinstance(itt, tuple) and itt[0] == 'list'):
            raise Unsupported(f'{cx.info.name}: `for` over a dynamically typed (live) container at {where(st)}')
        if '←' in it: raise Unsupported('iterable that may raise')
        v = st.target.id
        if v in cx.types: raise Unsupported(f'loop variable {v} is also a local')
        for n in ast.walk(st):
            if isinstance(n, (ast.Break, ast.Continue)): raise Unsupported('break / continue')
            if isinstance(n, ast.Assign) and any(isinstance(t, ast.Name) and t.id == v for t in n.targets):
                raise Unsupported('assignment to a loop variable')
        cx.types[v] = itt[1]
        cx.declared.append({v})
        # the alias check sees the body twice (what one iteration stores, the next must not change)
        saved_types = dict(cx.types); saved_tmp = cx.tmp
        self.stmts(st.body, cx)
        for k in list(cx.types):
            if k not in saved_types: del cx.types[k]
        cx.tmp = saved_tmp
        body = self.stmts(st.body, cx)
        cx.declared.pop()
        for k in list(cx.types):
            if k not in saved_types: del cx.types[k]
        del cx.types[v]
        return [f'for {ident(v)} in {it} do'] + ['  ' + l for l in (body or ['pure ()'])]

    # -------------------------------------------------------------- functions
    def function(self, info):
        cx = Ctx(self, info)
        for p, t in info.params:
            cx.types[p] = t
        cx.declared.append({p for p, _ in info.params})
        node = info.node
        # a function without `return <value>` that changes a parameter in place returns that parameter
        rets = [n for st in node.body if not isinstance(st, ast.FunctionDef) for n in ast.walk(st) if isinstance(n, ast.Return)]
        has_value = any(r.value is not None for r in rets)
        if info.mut_param and has_value: raise Unsupported(f'{info.name}: changes a parameter in place and returns a value')
        if info.mut_self and has_value: raise Unsupported(f'{info.name}: changes self and returns a value')
        body = self.stmts(node.body, cx, top=True)
        last = node.body[-1]
        if not isinstance(last, (ast.Return, ast.Raise, ast.If)) or not has_value:
            if has_value: raise Unsupported(f'{info.name}: falls off the end of a function that returns a value')
            body.append(f'return {self.result_code(info, None)}')
        elif isinstance(last, ast.If) and not self.always_leaves(last):
            raise Unsupported(f'{info.name}: falls off the end of a function that returns a value')
        info.ret_fresh = bool(getattr(info, 'ret_fresh_all', False))
        info.stores_params = {p for p, t in info.params if t == 'V' and p in cx.frozen}
        if info.mut_param and info.mut_param in info.stores_params:
            raise Unsupported(f'{info.name}: parameter {info.mut_param} is stored and changed in place')
        if info.mut_self: rt = 'Self'
        elif info.mut_param: rt = 'V'
        elif info.ret is None: rt = 'Unit'
        else: rt = lean_ty(info.ret)
        params = (['(pjs : Pjs)'] if info.uses_pjs else []) + ['(lg : LG)'] + (['(self : Self)'] if info.uses_self else [])
        params += [f'({ident(p)} : {lean_ty(t)})' for p, t in info.params]
        lines = [f'-- {SOURCE}: {CLASS}.{self.qual(info)}',
                 f'def {info.lean_name} {" ".join(params)} : M {rt} := do']
        muts = []
        if info.mut_self: muts.append('let mut self := self')
        for p, t in info.params:
            if p in cx.reassigned: muts.append(f'let mut {ident(p)} := {ident(p)}')
        return '\n'.join(lines + ['  ' + l for l in muts + body]) + '\n'

    def always_leaves(self, st):
        def leaves(sts):
            if not sts: return False
            l = sts[-1]
            if isinstance(l, (ast.Return, ast.Raise)): return True
            if isinstance(l, ast.If): return leaves(l.body) and leaves(l.orelse)
            return False
        return leaves(st.body) and leaves(st.orelse)

    def qual(self, info):
        if info.is_method: return info.name
        for m in METHODS:
            mi = self.fns[m]
            if any(st is info.node for st in mi.node.body): return f'{m}.{info.name}'
        return info.name

    def module(self):
        self.collect()
        self.analyse()
        defs = [self.function(self.fns[n]) for n in self.order]
        head = (f'/- GENERATED by translators/py2lean_classes.py from {SOURCE} — do not edit.\n'
                f'   Regenerated and compared on every run of the checks; see MalVerif/Py/PreludeClasses.lean for the conventions. -/\n'
                'import MalVerif.Py.PreludeClasses\n'
                'set_option linter.unusedVariables false\n'
                'namespace MalVerif.Py.Classes.Gen\n'
                'open MalVerif.Py MalVerif.Py.Classes\n'
                'open MalVerif.Py.Visitor (V)\n\n')
        return head + '\n'.join(defs) + '\nend MalVerif.Py.Classes.Gen\n'


def generate(repo, modules=None):
    out = {'Factory': Translator(repo).module()}
    if modules is not None:
        out = {m: t for m, t in out.items() if m in modules}
    return out


def main(argv):
    repo = argv[1]
    try:
        out = generate(repo)
    except Unsupported as e:
        print(f'UNSUPPORTED: {e}')
        return 3
    if argv[2] == '--check':
        bad = [m for m, t in out.items() if not os.path.exists(os.path.join(argv[3], m + '.lean'))
               or open(os.path.join(argv[3], m + '.lean'), encoding='utf-8').read() != t]
        print('changed: ' + ' '.join(bad) if bad else 'unchanged')
        return 1 if bad else 0
    os.makedirs(argv[2], exist_ok=True)
    for m, t in out.items():
        with open(os.path.join(argv[2], m + '.lean'), 'w', encoding='utf-8') as fh: fh.write(t)
    return 0


if __name__ == '__main__':
    sys.exit(main(sys.argv))
