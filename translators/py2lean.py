#!/usr/bin/env python3
"""py2lean — translate the imperative core of mal-toolbox's attack-graph code to Lean 4.

    py2lean.py <repo> <outdir>      writes <outdir>/<Module>.lean for every entry of MODULES
    py2lean.py <repo> --check <dir> exit 0 iff regenerated text == files in <dir>

The translation is *syntax directed* and deliberately thin: one Python
statement becomes one `do`-notation statement, a Python attribute read becomes
a field read of the object's record in the heap `s : H`, an attribute write
becomes a heap update, `for` becomes `for`, `return` becomes `return`, `raise`
becomes `throw`.  Everything that is not recognised raises `Unsupported` — the
translator never guesses.  What is dropped (and only that): docstrings, calls
on `logger`, `if logger.isEnabledFor(..):` blocks that contain only logging,
the message argument of `assert` / exceptions, the assignment `self.model = model` / `self.lang_graph =
lang_graph` of `__init__` (the environment *is* those two parameters), and assignments to the write-only
attribute `asset.attack_step_nodes` of model assets (table `WRITE_ONLY`; no translated function reads it).

A constructor call `AttackGraphNode(..)` / `Attacker(..)` allocates a fresh reference (`H.allocN` / `H.allocA`).

The fixed part (`MalVerif/Py/Prelude.lean`) says how Python values appear in
Lean.  See DESIGN.md §I.9 for the conventions and the trusted base.
"""
from __future__ import annotations
import ast, os, sys, textwrap

class Unsupported(Exception):
    pass

# ------------------------------------------------------------------ what is translated
# (python file, class or None, function name)
MODULES = {
    'Node': ('maltoolbox/attackgraph/node.py', [
        ('AttackGraphNode', 'is_compromised'), ('AttackGraphNode', 'is_compromised_by'),
        ('AttackGraphNode', 'is_enabled_defense'), ('AttackGraphNode', 'is_available_defense'),
        ('AttackGraphNode', 'full_name'),
    ]),
    'Attacker': ('maltoolbox/attackgraph/attacker.py', [
        ('Attacker', 'compromise'), ('Attacker', 'undo_compromise'),
    ]),
    'NodeDelegates': ('maltoolbox/attackgraph/node.py', [
        ('AttackGraphNode', 'compromise'), ('AttackGraphNode', 'undo_compromise'),
    ]),
    'Query': ('maltoolbox/attackgraph/query.py', [
        (None, 'is_node_traversable_by_attacker'), (None, 'get_attack_surface'),
        (None, 'update_attack_surface_add_nodes'), (None, 'get_defense_surface'),
        (None, 'get_enabled_defenses'),
    ]),
    'Graph': ('maltoolbox/attackgraph/attackgraph.py', [
        ('AttackGraph', 'get_node_by_id'), ('AttackGraph', 'get_node_by_full_name'),
        ('AttackGraph', 'get_attacker_by_id'), ('AttackGraph', 'add_node'),
        ('AttackGraph', 'remove_node'), ('AttackGraph', 'add_attacker'),
        ('AttackGraph', 'remove_attacker'),
    ]),
    'Apriori': ('maltoolbox/attackgraph/analyzers/apriori.py', [
        (None, 'propagate_viability_from_node'), (None, '_has_ttc_distribution'),
        (None, 'propagate_necessity_from_node'), (None, 'evaluate_viability'),
        (None, 'evaluate_necessity'), (None, 'evaluate_viability_and_necessity'),
        (None, 'calculate_viability_and_necessity'), (None, 'prune_unviable_and_unnecessary_nodes'),
    ]),
}
MODULES['Eval'] = ('maltoolbox/attackgraph/attackgraph.py', [(None, '_process_step_expression')])
# a *slice* of a function: only the top-level statements picked by the selector are translated (here the second
# loop of `_generate_graph`, which links the nodes; the first loop constructs objects from pjs assets and language
# dictionaries and is outside the supported subset)
MODULES['Link'] = ('maltoolbox/attackgraph/attackgraph.py', [('AttackGraph', '_generate_graph', 'link')])
SLICES = {'link': ('the loop `for ag_node in self.nodes:`', lambda st: isinstance(st, ast.For) and ast.unparse(st.iter) == 'self.nodes')}
# attacker attachment, the first loop of `_generate_graph` (node creation) as a slice, and the whole of
# `_generate_graph` / `regenerate_graph` / `__init__` (what they read from the model and the language graph are
# parameters: fields of `EvalEnv`)
MODULES['Attach'] = ('maltoolbox/attackgraph/attackgraph.py', [('AttackGraph', 'attach_attackers')])
MODULES['Nodes'] = ('maltoolbox/attackgraph/attackgraph.py', [('AttackGraph', '_generate_graph', 'nodes')])
MODULES['Regen'] = ('maltoolbox/attackgraph/attackgraph.py', [
    ('AttackGraph', '_generate_graph'), ('AttackGraph', 'regenerate_graph'), ('AttackGraph', '__init__')])
SLICES['nodes'] = ('the loop `for asset in self.model.assets:`',
                   lambda st: isinstance(st, ast.For) and ast.unparse(st.iter) == 'self.model.assets')
MODULE_ORDER = ['Node', 'Attacker', 'NodeDelegates', 'Query', 'Graph', 'Apriori', 'Eval', 'Link', 'Attach', 'Nodes',
                'Regen']
IMPORTS = {'Node': [], 'Attacker': ['Node'], 'NodeDelegates': ['Attacker'], 'Query': ['Node'],
           'Graph': ['Attacker'], 'Apriori': ['Graph'], 'Eval': [], 'Link': ['Graph', 'Eval'],
           'Attach': ['Graph'], 'Nodes': ['Graph', 'Eval'], 'Regen': ['Graph', 'Eval']}

# what harness/tie.py needs to know about this translation domain (see its docstring)
TIE = {
    'gen_dir': 'MalVerif/Py/Gen',
    'gen_modules': MODULE_ORDER,
    # modules that depend on the generated code, in dependency order
    'chain': ['MalVerif.Py.TieNode', 'MalVerif.Py.TieGraph', 'MalVerif.Py.TieApriori', 'MalVerif.Py.TieEval',
              'MalVerif.Py.TieLink', 'MalVerif.PropsGen.C01', 'MalVerif.PropsGen.C08', 'MalVerif.PropsGen.C09',
              'MalVerif.PropsGen.C11', 'MalVerif.PropsGen.C12', 'MalVerif.PropsGen.C13',
              'MalVerif.Py.TieAttach', 'MalVerif.PropsGen.C11_Attach', 'MalVerif.Py.TieNodes', 'MalVerif.Py.TieRegen',
              'MalVerif.PropsGen.C02', 'MalVerif.PropsGen.C01_Gen', 'MalVerif.Py.TieLinkAt', 'MalVerif.Py.TieRegenFull',
              'MalVerif.PropsGen.C09_Regen'],
    # which modules carry the claim of a property (its PropsGen file and what that imports)
    'needs': {
        'C01': ['MalVerif.Py.TieEval', 'MalVerif.Py.TieLink', 'MalVerif.PropsGen.C01', 'MalVerif.Py.TieNodes',
                'MalVerif.Py.TieRegen', 'MalVerif.PropsGen.C01_Gen'],
        'C02': ['MalVerif.Py.TieEval', 'MalVerif.Py.TieGraph', 'MalVerif.Py.TieLink', 'MalVerif.Py.TieNodes',
                'MalVerif.PropsGen.C02'],
        'C08': ['MalVerif.Py.TieApriori', 'MalVerif.PropsGen.C08'],
        'C09': ['MalVerif.Py.TieNode', 'MalVerif.Py.TieGraph', 'MalVerif.PropsGen.C09', 'MalVerif.Py.TieEval',
                'MalVerif.Py.TieLink', 'MalVerif.Py.TieNodes', 'MalVerif.Py.TieRegen', 'MalVerif.Py.TieLinkAt',
                'MalVerif.Py.TieRegenFull', 'MalVerif.PropsGen.C01_Gen', 'MalVerif.PropsGen.C09_Regen'],
        'C11': ['MalVerif.Py.TieNode', 'MalVerif.PropsGen.C11', 'MalVerif.Py.TieGraph', 'MalVerif.Py.TieAttach',
                'MalVerif.PropsGen.C11_Attach'],
        'C12': ['MalVerif.Py.TieNode', 'MalVerif.PropsGen.C12'],
        'C13': ['MalVerif.Py.TieNode', 'MalVerif.Py.TieGraph', 'MalVerif.PropsGen.C13'],
    },
    # python functions whose translation a property's theorems are about (for the evidence file)
    'sources': {
        'C01': 'attackgraph.py: _process_step_expression (the methods it calls on lang_graph / model are parameters: EvalEnv), the linking loop (second loop) of _generate_graph, the node-creation loop (first loop) and the whole of _generate_graph (with add_node, get_node_by_full_name, node.full_name)',
        'C02': 'attackgraph.py: the node-creation loop (first loop) of _generate_graph with add_node, get_node_by_id, get_node_by_full_name, _process_step_expression; node.py: full_name (model.assets, lang_graph._get_attacks_for_asset_type and getattr(asset, defense) are parameters: EvalEnv)',
        'C08': 'analyzers/apriori.py: propagate_viability_from_node, propagate_necessity_from_node, _has_ttc_distribution, evaluate_viability, evaluate_necessity, evaluate_viability_and_necessity, calculate_viability_and_necessity',
        'C09': 'attackgraph.py: get_node_by_id, get_node_by_full_name, get_attacker_by_id, add_node, remove_node, add_attacker, remove_attacker, regenerate_graph, __init__, _generate_graph; attacker.py: compromise, undo_compromise; node.py: full_name',
        'C11': 'attacker.py: compromise, undo_compromise; node.py: is_compromised, is_compromised_by, compromise, undo_compromise; attackgraph.py: attach_attackers (with add_attacker, get_node_by_full_name; model.attackers and their entry points are parameters: EvalEnv)',
        'C12': 'query.py: is_node_traversable_by_attacker, get_attack_surface, update_attack_surface_add_nodes, get_defense_surface, get_enabled_defenses; node.py: is_available_defense, is_enabled_defense, is_compromised_by',
        'C13': 'analyzers/apriori.py: prune_unviable_and_unnecessary_nodes; attackgraph.py: remove_node; attacker.py: undo_compromise',
    },
}

# `lang_graph` / `model` parameters of the step-expression evaluator: their methods are *parameters* of the
# translation (fields of `EvalEnv` in the prelude), not translated code.  name -> (argument types, result, raises)
ENV_METHODS = {
    'get_associated_assets_by_field_name': (['asset_obj', 'str'], ('list', 'asset_obj'), False),
    '_get_variable_for_asset_type_by_name': (['str', 'str'], 'expr', True),
    'get_asset_by_name': (['str'], ('opt', 'lgasset'), False),
    '_get_attacks_for_asset_type': (['str'], ('dict', 'str', 'attribs'), False),
}
# keys of a resolved attack-step dictionary (`PyAttribs`): key -> (field, type)
ATTRIB_KEYS = {'type': ('type', 'str'), 'ttc': ('ttc', ('opt', 'dictS')), 'tags': ('tags', ('list', 'str')),
               'meta': ('meta_', 'dictS1'), 'requires': ('requires', ('opt', 'requires')),
               'reaches': ('reaches', ('opt', 'reaches'))}
# attributes of model objects that are only ever written by the translated code: the assignment is dropped
WRITE_ONLY = {('asset_obj', 'attack_step_nodes')}
ENV_TYPES = ('env', 'model_env')     # `self.lang_graph` / `self.model`: both are the parameter `env`
ENV_PRESENT = {'env': 'env.has_lang_graph', 'model_env': 'env.has_model'}
EXPR_KEYS = {'type': 'str', 'name': 'str', 'subType': 'str', 'lhs': 'expr', 'rhs': 'expr', 'stepExpression': 'expr'}

CLASS_TYPE = {'AttackGraphNode': 'node', 'Attacker': 'att', 'AttackGraph': 'graph'}
PREFIX = {'node': 'node_', 'att': 'attacker_', 'graph': 'graph_', None: ''}

ATTRS = {
    'node': {'type': 'str', 'name': 'str', 'ttc': ('opt', 'dictS'), 'id': ('opt', 'int'),
             'asset': ('opt', 'asset_obj'), 'attributes': ('opt', 'attribs'), 'children': ('list', 'node'), 'parents': ('list', 'node'),
             'defense_status': ('opt', 'float'), 'existence_status': ('opt', 'bool'),
             'is_viable': 'bool', 'is_necessary': 'bool', 'compromised_by': ('list', 'att'),
             'mitre_info': ('opt', 'str'), 'tags': ('list', 'str')},
    'att': {'name': 'str', 'entry_points': ('list', 'node'), 'reached_attack_steps': ('list', 'node'),
            'id': ('opt', 'int')},
    'graph': {'nodes': ('list', 'node'), 'attackers': ('list', 'att'),
              '_id_to_node': ('dict', 'int', 'node'), '_full_name_to_node': ('dict', 'str', 'node'),
              '_id_to_attacker': ('dict', 'int', 'att'), 'next_node_id': 'int', 'next_attacker_id': 'int',
              'lang_graph': 'env', 'model': 'model_env'},
    'model_env': {'attackers': ('list', 'attinfo'), 'assets': ('list', 'asset_obj')},
    'attinfo': {'name': ('opt', 'str'), 'entry_points': ('list', ('tuple', 'asset_obj', ('list', 'str')))},
    'asset': {'name': 'str'},
    'asset_obj': {'id': 'int', 'type': 'str', 'name': 'str'},
}
PROPERTIES = {('node', 'full_name')}
STORE = {'node': 'n', 'att': 'a'}
SETTER = {'node': 'setN', 'att': 'setA'}
LEAN_KEYWORDS = {'end', 'at', 'from', 'have', 'show', 'fun', 'then', 'else', 'do', 'in', 'let', 'match', 'with',
                 'if', 'for', 'open', 'where', 'by', 'def', 'theorem', 'instance', 'structure', 'class',
                 'namespace', 'section', 'variable', 'universe', 'import', 'return', 'mut', 'unless', 'try',
                 'catch', 'finally', 'break', 'continue', 'calc', 'obtain', 'using', 'deriving', 'extends',
                 'local', 'private', 'protected', 'set_option', 'attribute', 'macro', 'syntax', 'notation',
                 'infix', 'prefix', 'postfix', 'mutual', 'partial', 'unsafe', 'noncomputable', 's', 'fuel'}
EXC = {'AttackGraphStepExpressionError': 'PyErr.attackGraphStepExpressionError', 'LookupError': 'PyErr.lookupError', 'ValueError': 'PyErr.valueError', 'AttackGraphException': 'PyErr.attackGraphException',
       'AssertionError': 'PyErr.assertionError', 'KeyError': 'PyErr.keyError'}

def lean_type(t):
    if t == 'node': return 'NRef'
    if t == 'att': return 'ARef'
    if t == 'bool': return 'Bool'
    if t == 'int': return 'Int'
    if t == 'str': return 'String'
    if t == 'float': return 'PyFloat'
    if t == 'dictS': return 'PyDictS'
    if t == 'asset': return 'PyAsset'
    if t == 'asset_obj': return 'PyAssetObj'
    if t == 'expr': return 'PyExpr'
    if t == 'lgasset': return 'LgAsset'
    if t == 'env': return 'EvalEnv'
    if t == 'attribs': return 'PyAttribs'
    if t == 'reaches': return 'PyReaches'
    if t == 'requires': return 'PyReaches'
    if t == 'dictS1': return 'PyDictS'
    if t == 'attinfo': return 'PyAttackerInfo'
    if isinstance(t, tuple) and t[0] == 'tuple': return '(' + ' × '.join(lean_type(x) for x in t[1:]) + ')'
    if isinstance(t, tuple) and t[0] == 'opt': return f'(Option {lean_type(t[1])})'
    if isinstance(t, tuple) and t[0] == 'list': return f'(List {lean_type(t[1])})'
    if isinstance(t, tuple) and t[0] == 'dict': return f'(List ({lean_type(t[1])} × {lean_type(t[2])}))'
    raise Unsupported(f'type {t}')

def ann_type(a: ast.expr | None):
    """type of a parameter / return annotation"""
    if a is None: raise Unsupported('missing annotation')
    src = ast.unparse(a).replace(' ', '')
    table = {'AttackGraphNode': 'node', 'Attacker': 'att', 'AttackGraph': 'graph', 'bool': 'bool', 'int': 'int',
             'str': 'str', 'None': 'none', 'list[AttackGraphNode]': ('list', 'node'), 'list[int]': ('list', 'int'),
             'Optional[int]': ('opt', 'int'), 'Optional[AttackGraphNode]': ('opt', 'node'),
             'Optional[Attacker]': ('opt', 'att'), 'list[Attacker]': ('list', 'att'),
             'LanguageGraph': 'env', 'Model': 'env', 'Optional[Model]': 'model_env',
             'list[Any]': ('list', 'asset_obj'), 'dict[str,Any]': 'expr',
             'tuple[list,Optional[str]]': ('tuple', ('list', 'asset_obj'), ('opt', 'str'))}
    if src in table: return table[src]
    raise Unsupported(f'annotation {src}')

def esc(name: str) -> str:
    return f'{name}_' if name in LEAN_KEYWORDS else name

# ------------------------------------------------------------------ function table
class Fn:
    def __init__(self, module, cls, node: ast.FunctionDef, slice_name=None):
        self.module, self.cls, self.node = module, cls, node
        self.slice = slice_name
        if slice_name:
            picked = [st for st in node.body if SLICES[slice_name][1](st)]
            if len(picked) != 1: raise Unsupported(f'slice {slice_name} of {node.name}: {len(picked)} matching statements')
            node = ast.FunctionDef(name=f'{node.name}_{slice_name}', args=node.args, body=picked, decorator_list=[],
                                   returns=ast.Constant(value=None), type_comment=None, type_params=[])
            ast.fix_missing_locations(node)
            self.node = node
        self.pyname = node.name
        self.selftype = CLASS_TYPE[cls] if cls else None
        self.lean = PREFIX[self.selftype] + node.name
        self.is_property = any(isinstance(d, ast.Name) and d.id == 'property' for d in node.decorator_list)
        # a decorator changes what a call / attribute read means (`cached_property`: computed once and then stale,
        # `lru_cache`, `staticmethod`, ...): only `@property` is understood (seeded defect C09-v4 went unnoticed before)
        # (`classmethod`: `AttackGraph._from_dict`, translated by the agserial domain, which treats `cls(..)` itself)
        for d in node.decorator_list:
            if not (isinstance(d, ast.Name) and d.id in ('property', 'classmethod')):
                raise Unsupported(f'decorator @{ast.unparse(d)} on {cls}.{node.name}')
        args = node.args.args
        self.params = []        # (pyname, type)
        for i, a in enumerate(args):
            if i == 0 and cls:
                self.params.append((a.arg, self.selftype))
            elif a.annotation is None and a.arg == 'lang_graph':
                self.params.append((a.arg, 'env'))          # `AttackGraph.__init__(self, lang_graph = None, ..)`
            else:
                self.params.append((a.arg, ann_type(a.annotation)))
        # default values of the trailing parameters (python name -> ast)
        nd = len(node.args.defaults)
        self.defaults = {a.arg: d for a, d in zip(args[len(args) - nd:], node.args.defaults)} if nd else {}
        self.ret = ann_type(node.returns) if node.returns is not None else 'none'
        self.takes_env = any(t in ENV_TYPES for _, t in self.params)
        self.takes_s = cls is not None or any(t in ('node', 'att', 'graph') for _, t in self.params)
        self.calls: set[str] = set()
        self.mutates = False
        self.raises = False
        self.recursive = False
        self.mut_attrs: set = set()     # (objtype, attr) of list attributes that may be mutated (transitively)

def closure(modules):
    """the given generated modules and everything they import, in MODULE_ORDER"""
    want = set()
    todo = list(modules)
    while todo:
        m = todo.pop()
        if m in want: continue
        want.add(m); todo.extend(IMPORTS[m])
    return [m for m in MODULE_ORDER if m in want]

# `x == y`, `x in l`, `l.remove(x)` on AttackGraphNode / Attacker objects are translated as identity of references
# (Prelude: "two distinct objects of one graph differ in `id`, so dataclass `==` is identity there").  That reading rests
# on the class header: a plain `@dataclass` whose generated `__eq__` compares every field, `id` included.
IDENTITY_EQ_CLASSES = ('AttackGraphNode', 'Attacker')
def check_class_header(path, c: ast.ClassDef):
    if c.name not in IDENTITY_EQ_CLASSES: return
    if not (len(c.decorator_list) == 1 and isinstance(c.decorator_list[0], ast.Name) and c.decorator_list[0].id == 'dataclass'):
        raise Unsupported(f'{path}: class {c.name} is not a plain @dataclass (its == is translated as identity of objects with distinct ids)')
    for n in c.body:
        if isinstance(n, ast.FunctionDef) and n.name in ('__eq__', '__ne__', '__hash__'):
            raise Unsupported(f'{path}: class {c.name} defines {n.name} (== is translated as identity of objects with distinct ids)')
        if isinstance(n, ast.AnnAssign) and isinstance(n.value, ast.Call) and \
                isinstance(n.value.func, ast.Name) and n.value.func.id == 'field':
            for kw in n.value.keywords:
                if kw.arg == 'compare' and not (isinstance(kw.value, ast.Constant) and kw.value.value is True):
                    raise Unsupported(f'{path}: field {ast.unparse(n.target)} of {c.name} is left out of == '
                                      f'(== is translated as identity of objects with distinct ids)')

def collect(repo, order=None):
    fns: dict[str, Fn] = {}
    by_method: dict[tuple, Fn] = {}
    for mod in (order or MODULE_ORDER):
        path, sel = MODULES[mod]
        tree = ast.parse(open(os.path.join(repo, path), encoding='utf-8').read())
        for entry in sel:
            cls, name = entry[0], entry[1]
            slice_name = entry[2] if len(entry) > 2 else None
            found = None
            if cls is None:
                for n in tree.body:
                    if isinstance(n, ast.FunctionDef) and n.name == name: found = n
            else:
                for c in tree.body:
                    if isinstance(c, ast.ClassDef) and c.name == cls:
                        check_class_header(path, c)
                        for n in c.body:
                            if isinstance(n, ast.FunctionDef) and n.name == name: found = n
            if found is None:
                raise Unsupported(f'{path}: function {cls}.{name} not found')
            f = Fn(mod, cls, found, slice_name)
            if f.lean in fns: raise Unsupported(f'duplicate {f.lean}')
            fns[f.lean] = f
            by_method[(f.selftype, f.pyname)] = f
    return fns, by_method

# ------------------------------------------------------------------ effect analysis
def is_logger_call(e):
    return isinstance(e, ast.Call) and isinstance(e.func, ast.Attribute) and \
        isinstance(e.func.value, ast.Name) and e.func.value.id == 'logger'

def only_logging(stmts):
    def ok(s):
        if isinstance(s, ast.Expr): return is_logger_call(s.value) or isinstance(s.value, ast.Constant)
        if isinstance(s, ast.If): return only_logging(s.body) and only_logging(s.orelse)
        return isinstance(s, ast.Pass)
    return all(ok(s) for s in stmts)

class Effects(ast.NodeVisitor):
    """first approximation of calls / raises / mutations of a function body (types are resolved later, so the
    callee is identified by name only: method names are unique over the translated classes except
    compromise / undo_compromise, which all mutate)"""
    def __init__(self, fn: Fn, by_name, env=None):
        self.fn, self.by_name = fn, by_name
        self.env = dict(env or {})      # python name -> type, where it is known (parameters)
    def visit_If(self, n):
        if is_logger_call(n.test) and only_logging(n.body) and not n.orelse:
            return
        self.generic_visit(n)
    def visit_Raise(self, n): self.fn.raises = True
    def visit_While(self, n):
        self.fn.raises = True          # the bounded unrolling raises PyErr.nonTermination when exhausted
        self.generic_visit(n)
    def visit_Assert(self, n): self.fn.raises = True
    def visit_Attribute(self, n):
        # `self.model` / `self.lang_graph`: the function needs the environment parameter
        if isinstance(n.value, ast.Name) and self.env.get(n.value.id) == 'graph' and \
                ATTRS['graph'].get(n.attr) in ENV_TYPES:
            self.fn.takes_env = True
        self.generic_visit(n)
    def visit_Subscript(self, n):
        # `l[0]` (IndexError) / `step['requires']['stepExpressions']` (TypeError on None)
        if isinstance(n.ctx, ast.Load) and isinstance(n.slice, ast.Constant) and \
                (isinstance(n.slice.value, int) or
                 (n.slice.value == 'stepExpressions' and isinstance(n.value, ast.Subscript) and
                  isinstance(n.value.slice, ast.Constant) and n.value.slice.value == 'requires')):
            self.fn.raises = True
        self.generic_visit(n)
    def visit_AnnAssign(self, n):
        if isinstance(n.target, (ast.Attribute, ast.Subscript)):
            self.fn.mutates = True
            if isinstance(n.target, ast.Attribute): self.fn.mut_attrs.add(n.target.attr)
        self.generic_visit(n)
    def visit_Delete(self, n): self.fn.raises = True; self.fn.mutates = True
    def visit_Assign(self, n):
        for t in n.targets:
            if isinstance(t, (ast.Attribute, ast.Subscript)):
                self.fn.mutates = True
                if isinstance(t, ast.Attribute): self.fn.mut_attrs.add(t.attr)
        self.generic_visit(n)
    def visit_AugAssign(self, n):
        if isinstance(n.target, (ast.Attribute, ast.Subscript)): self.fn.mutates = True
        self.generic_visit(n)
    def visit_Call(self, n):
        if is_logger_call(n): return
        if isinstance(n.func, ast.Attribute):
            m = n.func.attr
            if m in ('append', 'remove') and isinstance(n.func.value, ast.Attribute):
                self.fn.mutates = True
                self.fn.mut_attrs.add(n.func.value.attr)
                if m == 'remove' : self.fn.raises = True
            recv = n.func.value
            rt = self.env.get(recv.id) if isinstance(recv, ast.Name) else None
            if rt == 'env' and m in ENV_METHODS:
                if ENV_METHODS[m][2]: self.fn.raises = True
                self.generic_visit(n); return
            for f in self.by_name.get(m, []):
                if f.cls is not None and (rt is None or rt == f.selftype): self.fn.calls.add(f.lean)
        elif isinstance(n.func, ast.Name):
            if CLASS_TYPE.get(n.func.id) in STORE:
                self.fn.mutates = True          # constructor call: allocation
            if n.func.id == 'getattr': self.fn.takes_env = True
            for f in self.by_name.get(n.func.id, []):
                if f.cls is None: self.fn.calls.add(f.lean)
        self.generic_visit(n)

def analyse(fns):
    by_name: dict[str, list[Fn]] = {}
    for f in fns.values(): by_name.setdefault(f.pyname, []).append(f)
    for f in fns.values():
        Effects(f, by_name, dict(f.params)).visit(f.node)
        # `while x in l: l.remove(x)` never raises; handled as an idiom, but keep the conservative flag harmlessly
    changed = True
    while changed:
        changed = False
        for f in fns.values():
            for c in f.calls:
                g = fns[c]
                for attr in ('mutates', 'raises'):
                    if getattr(g, attr) and not getattr(f, attr):
                        setattr(f, attr, True); changed = True
                if not g.mut_attrs <= f.mut_attrs:
                    f.mut_attrs |= g.mut_attrs; changed = True
                for attr in ('takes_env', 'takes_s'):
                    if getattr(g, attr) and not getattr(f, attr):
                        setattr(f, attr, True); changed = True
    # recursion: f reaches itself
    for f in fns.values():
        seen, todo = set(), list(f.calls)
        while todo:
            c = todo.pop()
            if c in seen: continue
            seen.add(c); todo.extend(fns[c].calls)
        f.recursive = f.lean in seen
        if f.recursive and not f.mutates: f.raises = True      # out of fuel = RecursionError
        f.reaches_recursive = any(fns[c].recursive for c in seen)
        if f.recursive and any(c != f.lean and fns[c].recursive and f.lean in _reach(fns, c) for c in f.calls):
            raise Unsupported(f'mutual recursion through {f.lean}')

def _reach(fns, start):
    seen, todo = set(), [start]
    while todo:
        c = todo.pop()
        for d in fns[c].calls:
            if d not in seen: seen.add(d); todo.append(d)
    return seen

# ------------------------------------------------------------------ translation of one function
class Tr:
    def __init__(self, fn: Fn, fns, by_method):
        self.fn, self.fns, self.by_method = fn, fns, by_method
        self.locals: dict[str, object] = {}      # python name -> type
        self.narrow: dict[str, tuple] = {}       # ast.dump(expr) -> (lean var, type)
        self.lines: list[str] = []
        self.monadic = fn.raises
        self.tmp = 0
        self.tuple_parts: dict[str, list] = {}

    # ---- helpers
    def fresh(self, base):
        self.tmp += 1
        return f'{base}_{self.tmp}'
    def emit(self, ind, s): self.lines.append('  ' * ind + s)
    def truthy(self, lean, t):
        if t == 'bool': return lean
        if isinstance(t, tuple) and t[0] == 'opt' and t[1] == 'dictS': return f'(dictTruthy {lean})'
        if t == ('opt', 'bool'): return f'(truthyOptBool {lean})'
        if t == ('opt', 'int'): return f'(truthyOptInt {lean})'
        if t == ('opt', 'str'): return f'(truthyOptStr {lean})'
        if t in ENV_TYPES: return ENV_PRESENT[t]       # `self.model` / `self.lang_graph` is None or an object
        if isinstance(t, tuple) and t[0] == 'opt' and t[1] in ('node', 'att', 'asset', 'asset_obj', 'lgasset', 'reaches', 'attribs'): return f'({lean}).isSome'
        if isinstance(t, tuple) and t[0] == 'list': return f'!({lean}).isEmpty'
        if t in ('node', 'att', 'asset', 'asset_obj', 'lgasset'): return 'true'
        raise Unsupported(f'truthiness of type {t}')
    def as_int(self, lean, t):
        if t == 'int': return lean
        if t == ('opt', 'int'): return f'(optIntGet {lean})'
        raise Unsupported(f'int expected, got {t}')

    # ---- expressions: returns (lean text, type)
    def expr(self, e) -> tuple[str, object]:
        key = ast.dump(e)
        if key in self.narrow:
            return self.narrow[key]
        if isinstance(e, ast.Constant):
            v = e.value
            if v is True: return 'true', 'bool'
            if v is False: return 'false', 'bool'
            if v is None: return 'none', ('opt', '?')
            if isinstance(v, int): return (f'({v} : Int)', 'int')
            if isinstance(v, str): return ('"' + v.replace('\\', '\\\\').replace('"', '\\"') + '"', 'str')
            raise Unsupported(f'constant {v!r}')
        if isinstance(e, ast.Name):
            if e.id in self.locals: return esc(e.id), self.locals[e.id]
            raise Unsupported(f'unknown name {e.id}')
        if isinstance(e, ast.Attribute):
            base, bt = self.expr(e.value)
            if bt == 'graph':
                if ATTRS['graph'].get(e.attr) in ENV_TYPES: return 'env', ATTRS['graph'][e.attr]
                if e.attr in ATTRS['graph']: return f's.{e.attr}', ATTRS['graph'][e.attr]
                raise Unsupported(f'graph attribute {e.attr}')
            if bt in ('node', 'att'):
                if (bt, e.attr) in PROPERTIES:
                    return f'({PREFIX[bt]}{e.attr} s {base})', 'str'
                if e.attr in ATTRS[bt]: return f'(s.{STORE[bt]} {base}).{e.attr}', ATTRS[bt][e.attr]
                raise Unsupported(f'{bt} attribute {e.attr}')
            if bt in ('asset', 'asset_obj', 'attinfo', 'model_env'):
                if e.attr in ATTRS[bt]: return f'{base}.{e.attr}', ATTRS[bt][e.attr]
            raise Unsupported(f'attribute {e.attr} of {bt}')
        if isinstance(e, ast.UnaryOp) and isinstance(e.op, ast.Not):
            x, t = self.expr(e.operand)
            return f'!({self.truthy(x, t)})', 'bool'
        if isinstance(e, ast.BoolOp):
            parts = [self.expr(v) for v in e.values]
            op = ' && ' if isinstance(e.op, ast.And) else ' || '
            return '(' + op.join(self.truthy(x, t) for x, t in parts) + ')', 'bool'
        if isinstance(e, ast.Compare):
            return self.compare(e)
        if isinstance(e, ast.BinOp) and isinstance(e.op, ast.Add):
            l, lt = self.expr(e.left); r, rt = self.expr(e.right)
            if lt == 'str' and rt == 'str': return f'({l} ++ {r})', 'str'
            if lt == 'str' and rt == ('opt', 'str'): return f'({l} ++ optStrGet {r})', 'str'
            return f'({self.as_int(l, lt)} + {self.as_int(r, rt)})', 'int'
        if isinstance(e, ast.IfExp):
            return self.ifexp(e)
        if isinstance(e, ast.Call):
            return self.call(e)
        if isinstance(e, ast.Subscript):
            base, bt = self.expr(e.value)
            k, kt = self.expr(e.slice)
            if bt == ('opt', 'dictS') and kt == 'str': return f'(dictGetS {base} {k})', 'str'
            if bt == ('opt', 'attribs') and isinstance(e.slice, ast.Constant) and e.slice.value == 'reaches':
                return f'(attribsReaches {base})', ('opt', 'reaches')
            if bt == ('opt', 'reaches') and isinstance(e.slice, ast.Constant) and e.slice.value == 'stepExpressions':
                return f'(reachesExprs {base})', ('list', 'expr')
            if bt == 'expr' and isinstance(e.slice, ast.Constant) and e.slice.value in EXPR_KEYS:
                return f'{base}.{e.slice.value}', EXPR_KEYS[e.slice.value]
            if bt == 'attribs' and isinstance(e.slice, ast.Constant) and e.slice.value in ATTRIB_KEYS:
                fld, ft = ATTRIB_KEYS[e.slice.value]
                return f'{base}.{fld}', ft
            if bt == 'dictS1' and kt == 'str': return f'(dictGetS (some {base}) {k})', 'str'
            if bt == ('opt', 'requires') and isinstance(e.slice, ast.Constant) and e.slice.value == 'stepExpressions':
                if not self.monadic: raise Unsupported('raising subscript in pure function')
                return f'(← requiresExprs {base})', ('list', 'expr')
            if isinstance(bt, tuple) and bt[0] == 'list' and isinstance(e.slice, ast.Constant) and \
                    isinstance(e.slice.value, int) and not isinstance(e.slice.value, bool) and e.slice.value >= 0:
                if not self.monadic: raise Unsupported('raising subscript in pure function')
                return f'(← pyIndex {base} {e.slice.value})', bt[1]
            raise Unsupported(f'subscript on {bt}')
        if isinstance(e, ast.Tuple):
            parts = [self.expr(v) for v in e.elts]
            txt = '(' + ', '.join(x for x, _ in parts) + ')'
            self.tuple_parts[txt] = parts
            return txt, ('tuple',) + tuple(t for _, t in parts)
        if isinstance(e, ast.List):
            parts = [self.expr(v) for v in e.elts]
            if not parts: return '[]', ('list', '?')
            if len(parts) == 1 and parts[0][1] == ('opt', 'asset_obj'):
                return f'(optAssetList {parts[0][0]})', ('list', 'asset_obj')
            ts = {t for _, t in parts}
            if len(ts) != 1: raise Unsupported('heterogeneous list literal')
            return '[' + ', '.join(x for x, _ in parts) + ']', ('list', ts.pop())
        if isinstance(e, ast.Dict) and not e.keys:
            return '[]', ('dict', '?', '?')
        if isinstance(e, ast.ListComp):
            if len(e.generators) != 1 or e.generators[0].is_async: raise Unsupported('list comprehension shape')
            g = e.generators[0]
            it, itt = self.expr(g.iter)
            if not (isinstance(itt, tuple) and itt[0] == 'list') or not isinstance(g.target, ast.Name):
                raise Unsupported('list comprehension iterable')
            v = g.target.id
            saved = self.locals.get(v)
            self.locals[v] = itt[1]
            res = it
            for c in g.ifs:
                cx, ct = self.expr(c)
                res = f'({res}.filter (fun {esc(v)} => {self.truthy(cx, ct)}))'
            rt = itt
            if not (isinstance(e.elt, ast.Name) and e.elt.id == v):
                ex, et = self.expr(e.elt)
                res = f'({res}.map (fun {esc(v)} => {ex}))'; rt = ('list', et)
            if saved is None: del self.locals[v]
            else: self.locals[v] = saved
            return res, rt
        raise Unsupported(f'expression {ast.unparse(e)}')

    def compare(self, e: ast.Compare):
        # chained float range `0.0 <= x <= 1.0`
        if len(e.ops) == 2 and all(isinstance(o, ast.LtE) for o in e.ops) and \
                isinstance(e.left, ast.Constant) and e.left.value == 0.0 and isinstance(e.left.value, float) and \
                isinstance(e.comparators[1], ast.Constant) and e.comparators[1].value == 1.0:
            x, t = self.expr(e.comparators[0])
            if t == ('opt', 'float'): return f'(optGe0 {x} && optLe1 {x})', 'bool'
            if t == 'float': return f'({x}.ge0 && {x}.le1)', 'bool'
            raise Unsupported('float range on non-float')
        if len(e.ops) != 1: raise Unsupported('chained comparison')
        op, rhs = e.ops[0], e.comparators[0]
        # comparisons with None
        if isinstance(rhs, ast.Constant) and rhs.value is None and isinstance(op, (ast.Is, ast.IsNot, ast.Eq, ast.NotEq)):
            x, t = self.expr(e.left)
            if t in ENV_TYPES:
                return (f'!({ENV_PRESENT[t]})' if isinstance(op, (ast.Is, ast.Eq)) else ENV_PRESENT[t]), 'bool'
            if not (isinstance(t, tuple) and t[0] == 'opt'):
                return ('false' if isinstance(op, (ast.Is, ast.Eq)) else 'true'), 'bool'
            return (f'({x}).isNone' if isinstance(op, (ast.Is, ast.Eq)) else f'({x}).isSome'), 'bool'
        # float comparisons with the literals 0.0 / 1.0
        if isinstance(rhs, ast.Constant) and isinstance(rhs.value, float) and isinstance(op, (ast.Eq, ast.NotEq)):
            if rhs.value not in (0.0, 1.0): raise Unsupported(f'float literal {rhs.value}')
            x, t = self.expr(e.left)
            fn = 'Eq1' if rhs.value == 1.0 else 'Eq0'
            if t == ('opt', 'float'): r = f'(opt{fn} {x})'
            elif t == 'float': r = f'({x}.{fn.lower()})'
            else: raise Unsupported('float comparison on non-float')
            return (r if isinstance(op, ast.Eq) else f'!{r}'), 'bool'
        l, lt = self.expr(e.left)
        r, rt = self.expr(rhs)
        # `l == []` / `l != []` on a list
        if isinstance(op, (ast.Eq, ast.NotEq)) and isinstance(rhs, ast.List) and not rhs.elts and \
                isinstance(lt, tuple) and lt[0] == 'list':
            return (f'({l}).isEmpty' if isinstance(op, ast.Eq) else f'!({l}).isEmpty'), 'bool'
        if isinstance(op, (ast.In, ast.NotIn)):
            if isinstance(rt, tuple) and rt[0] == 'list':
                if rt[1] not in (lt, '?'): raise Unsupported(f'membership {lt} in {rt}')
                res = f'({r}).contains {l}'
            elif isinstance(rt, tuple) and rt[0] == 'dict':
                res = f'dictIn {r} {self.as_int(l, lt) if rt[1] == "int" else l}'
            elif rt == ('opt', 'dictS') and lt == 'str':
                res = f'dictHas {r} {l}'
            elif rt == 'dictS1' and lt == 'str':
                res = f'dictHas (some {r}) {l}'
            else: raise Unsupported(f'membership in {rt}')
            return (f'({res})' if isinstance(op, ast.In) else f'!({res})'), 'bool'
        if isinstance(op, (ast.Is, ast.IsNot)):
            # `x is y` / `x is not y` between object references: reference equality (objects are references into
            # the heap); an `Optional` on one side (`d.get(k) is node`): `None` is no object, so `== some y`
            for ot in ('node', 'att'):
                if lt == ot and rt == ot: res = f'({l} == {r})'
                elif lt == ('opt', ot) and rt == ot: res = f'({l} == some {r})'
                elif lt == ot and rt == ('opt', ot): res = f'(some {l} == {r})'
                else: continue
                return (res if isinstance(op, ast.Is) else f'!{res}'), 'bool'
            raise Unsupported(f'`is` between {lt} and {rt}')
        if isinstance(op, (ast.Eq, ast.NotEq)):
            if lt != rt or lt not in ('str', 'int', 'bool', 'node', 'att'):
                raise Unsupported(f'== between {lt} and {rt}')
            return (f'({l} == {r})' if isinstance(op, ast.Eq) else f'({l} != {r})'), 'bool'
        if isinstance(op, (ast.Gt, ast.GtE, ast.Lt, ast.LtE)):
            sym = {ast.Gt: '>', ast.GtE: '≥', ast.Lt: '<', ast.LtE: '≤'}[type(op)]
            return f'(decide ({self.as_int(l, lt)} {sym} {self.as_int(r, rt)}))', 'bool'
        raise Unsupported(f'comparison {ast.unparse(e)}')

    def ifexp(self, e: ast.IfExp):
        # `x if x is not None else y`
        t = e.test
        if isinstance(t, ast.Compare) and len(t.ops) == 1 and isinstance(t.ops[0], ast.IsNot) and \
                isinstance(t.comparators[0], ast.Constant) and t.comparators[0].value is None and \
                ast.dump(t.left) == ast.dump(e.body):
            x, xt = self.expr(e.body)
            y, yt = self.expr(e.orelse)
            if isinstance(xt, tuple) and xt[0] == 'opt' and xt[1] == yt:
                return f'(match {x} with | some v => v | none => {y})', yt
            raise Unsupported('narrowing conditional expression types')
        c, ct = self.expr(t)
        a, at = self.expr(e.body); b, bt = self.expr(e.orelse)
        if bt == ('list', '?') and isinstance(at, tuple) and at[0] == 'list': bt = at
        if bt == ('opt', '?') and not (isinstance(at, tuple) and at[0] == 'opt'):      # `x if c else None`
            return f'(if {self.truthy(c, ct)} then (some {a}) else none)', ('opt', at)
        if at != bt: raise Unsupported('conditional expression types')
        return f'(if {self.truthy(c, ct)} then {a} else {b})', at

    def call_args(self, f: Fn, recv, args):
        """lean argument list for a call of translated function f"""
        out = []
        params = f.params
        if f.cls:
            if f.selftype != 'graph': out.append(recv)
            params = params[1:]
        args = list(args)
        if len(args) > len(params): raise Unsupported(f'call of {f.lean}: too many arguments')
        for pn, _ in params[len(args):]:        # trailing parameters that are not given: their default values
            if pn not in f.defaults: raise Unsupported(f'call of {f.lean}: argument {pn} must be given')
            d = f.defaults[pn]
            if not ((isinstance(d, ast.Constant) and d.value is None) or (isinstance(d, ast.List) and not d.elts)):
                raise Unsupported(f'call of {f.lean}: default value of {pn}')
            args.append(d)
        for (pn, pt), a in zip(params, args):
            if pt in ENV_TYPES: continue
            x, t = self.expr(a)
            if pt == 'graph': continue
            if t != pt:
                if isinstance(pt, tuple) and pt[0] == 'opt' and pt[1] == t: x = f'(some {x})'
                elif t == ('opt', '?') and isinstance(pt, tuple) and pt[0] == 'opt': pass
                elif isinstance(t, tuple) and t[0] == 'list' and t[1] == '?' and isinstance(pt, tuple) and pt[0] == 'list': pass
                else: raise Unsupported(f'call of {f.lean}: argument {pn} has type {t}, expected {pt}')
            out.append(x)
        return out

    def fuel_arg(self, f: Fn):
        if not f.recursive: return ''
        if self.fn.recursive and f.lean == self.fn.lean: return 'fuel '
        if not f.takes_s: return 'env.evalFuel '      # the evaluator: its callers hand it the fuel of the environment
        return '(pyFuel s) '

    @staticmethod
    def ctx(f: Fn):
        return ('s ' if f.takes_s else '') + ('env ' if f.takes_env else '')

    def resolve_call(self, e: ast.Call):
        """(Fn, receiver lean, args) if e calls a translated function"""
        if e.keywords: raise Unsupported('keyword arguments')
        if isinstance(e.func, ast.Name):
            f = self.by_method.get((None, e.func.id))
            if f: return f, None, e.args
            return None
        if isinstance(e.func, ast.Attribute):
            try:
                recv, rt = self.expr(e.func.value)
            except Unsupported:
                return None
            f = self.by_method.get((rt, e.func.attr))
            if f: return f, recv, e.args
        return None

    def call(self, e: ast.Call):
        r = self.resolve_call(e)
        if r:
            f, recv, args = r
            if f.mutates: raise Unsupported(f'call of mutating function {f.lean} inside an expression')
            la = self.call_args(f, recv, args)
            txt = f'{f.lean} {self.fuel_arg(f)}{self.ctx(f)}' + ' '.join(la)
            if f.raises:
                if not self.monadic: raise Unsupported('raising call in pure function')
                return f'(← {txt.strip()})', f.ret
            return f'({txt.strip()})', f.ret
        if isinstance(e.func, ast.Attribute) and not e.keywords:
            m = e.func.attr
            try: recv, rt = self.expr(e.func.value)
            except Unsupported: recv, rt = None, None
            if m == 'items' and not e.args and isinstance(rt, tuple) and rt[0] == 'dict':
                return recv, ('list', ('tuple', rt[1], rt[2]))          # insertion order
            if rt == 'env' and m in ENV_METHODS:
                ats, ret, raises = ENV_METHODS[m]
                if len(e.args) != len(ats): raise Unsupported(f'arity of {m}')
                xs = []
                for a, want in zip(e.args, ats):
                    x, t = self.expr(a)
                    if t != want: raise Unsupported(f'{m}: argument of type {t}, expected {want}')
                    xs.append(x)
                txt = f'env.{m} ' + ' '.join(xs)
                if raises:
                    if not self.monadic: raise Unsupported('raising call in pure function')
                    return f'(← {txt})', ret
                return f'({txt})', ret
            if rt == 'lgasset' and m == 'is_subasset_of' and len(e.args) == 1:
                x, t = self.expr(e.args[0])
                if t != 'lgasset': raise Unsupported('is_subasset_of argument')
                return f'(env.is_subasset_of {recv} {x})', 'bool'
        if isinstance(e.func, ast.Name):
            n = e.func.id
            if n == 'hasattr' and len(e.args) == 2 and isinstance(e.args[1], ast.Constant):
                x, t = self.expr(e.args[0])
                if t in ATTRS and e.args[1].value in ATTRS[t]: return 'true', 'bool'
                raise Unsupported(f'hasattr on {t}')
            if n == 'getattr' and len(e.args) == 2:
                # `getattr(asset, defense_name)`: the asset's current value of that defense (a parameter)
                x, t = self.expr(e.args[0]); k, kt = self.expr(e.args[1])
                if t == 'asset_obj' and kt == 'str': return f'(env.getattr_asset {x} {k})', ('opt', 'float')
                raise Unsupported(f'getattr on {t}')
            if n == 'next' and len(e.args) == 2 and isinstance(e.args[0], ast.GeneratorExp) and \
                    isinstance(e.args[1], ast.Constant) and e.args[1].value is None:
                # next((v for v in L if cond), None): the first element satisfying cond, or None
                ge = e.args[0]
                if len(ge.generators) != 1 or not isinstance(ge.generators[0].target, ast.Name) or \
                        not (isinstance(ge.elt, ast.Name) and ge.elt.id == ge.generators[0].target.id):
                    raise Unsupported('generator shape in next()')
                g = ge.generators[0]
                it, itt = self.expr(g.iter)
                if not (isinstance(itt, tuple) and itt[0] == 'list'): raise Unsupported('next() over non-list')
                v = g.target.id
                saved = self.locals.get(v); self.locals[v] = itt[1]
                conds = [self.expr(c) for c in g.ifs]
                if saved is None: del self.locals[v]
                else: self.locals[v] = saved
                body = ' && '.join(self.truthy(cx, ct) for cx, ct in conds) or 'true'
                return f'(({it}).find? (fun {esc(v)} => {body}))', ('opt', itt[1])
            if n == 'len' and len(e.args) == 1:
                x, t = self.expr(e.args[0])
                if isinstance(t, tuple) and t[0] == 'list': return f'(({x}).length : Int)', 'int'
            if n == 'max' and len(e.args) == 2:
                a, at = self.expr(e.args[0]); b, bt = self.expr(e.args[1])
                return f'(max {self.as_int(a, at)} {self.as_int(b, bt)})', 'int'
            if n == 'list' and len(e.args) == 1:
                x, t = self.expr(e.args[0])
                if isinstance(t, tuple) and t[0] == 'list': return x, t
            if n == 'bool' and len(e.args) == 1:
                x, t = self.expr(e.args[0]); return self.truthy(x, t), 'bool'
            if n == 'int' and len(e.args) == 1:
                x, t = self.expr(e.args[0]); return self.as_int(x, t), 'int'
            if n == 'str' and len(e.args) == 1:
                x, t = self.expr(e.args[0])
                if t == 'str': return x, 'str'
                if t == 'int': return f'(toString {x})', 'str'
                if t == ('opt', 'int'): return f'(strOptInt {x})', 'str'
            if n == 'isinstance' and len(e.args) == 2 and isinstance(e.args[1], ast.Name) and e.args[1].id == 'dict':
                x, t = self.expr(e.args[0])
                if t == ('opt', 'attribs'): return f'({x}).isSome', 'bool'
                raise Unsupported('isinstance(.., dict)')
            if n == 'isinstance' and len(e.args) == 2 and isinstance(e.args[1], ast.Name) and e.args[1].id in ('int', 'bool'):
                x, t = self.expr(e.args[0])
                if t == ('opt', e.args[1].id): return f'({x}).isSome', 'bool'
                if t == e.args[1].id: return 'true', 'bool'
        if isinstance(e.func, ast.Attribute) and e.func.attr == 'get' and len(e.args) == 1:
            d, dt = self.expr(e.func.value)
            if isinstance(dt, tuple) and dt[0] == 'dict':
                k, kt = self.expr(e.args[0])
                return f'(dictGet {d} {self.as_int(k, kt) if dt[1] == "int" else k})', ('opt', dt[2])
        raise Unsupported(f'call {ast.unparse(e)}')

    # ---- heap writes
    def write_attr(self, ind, target: ast.Attribute, value_lean: str):
        base, bt = self.expr(target.value)
        if bt == 'graph':
            self.emit(ind, f's := {{ s with {target.attr} := {value_lean} }}')
        elif bt in ('node', 'att'):
            self.emit(ind, f's := s.{SETTER[bt]} {base} {{ s.{STORE[bt]} {base} with {target.attr} := {value_lean} }}')
        else:
            raise Unsupported(f'assignment to attribute of {bt}')

    def coerce(self, x, t, want):
        if t == want: return x
        if isinstance(want, tuple) and want[0] == 'opt':
            if t == want[1]: return f'(some {x})'
            if t == ('opt', '?'): return 'none'
        if isinstance(want, tuple) and want[0] == 'list' and t == ('list', '?'): return x
        if isinstance(want, tuple) and want[0] == 'dict' and t == ('dict', '?', '?'): return x
        if want == 'bool' and t == ('opt', 'bool'): return f'(optBoolGet {x})'
        if isinstance(want, tuple) and want[0] == 'tuple' and isinstance(t, tuple) and t[0] == 'tuple' and len(t) == len(want) \
                and x in self.tuple_parts:
            return '(' + ', '.join(self.coerce(px, pt, w) for (px, pt), w in zip(self.tuple_parts[x], want[1:])) + ')'
        raise Unsupported(f'cannot store {t} into {want}')

    # ---- statements
    def body(self, ind, stmts):
        n0 = len(self.lines)
        narrow0 = dict(self.narrow)
        try:
            self._body(ind, stmts)
        finally:
            # what a guard (`if not x: raise / continue`) established holds until the end of its block only
            for k in list(self.narrow):
                if k not in narrow0: del self.narrow[k]
        if len(self.lines) == n0:
            self.emit(ind, 'pure ()')

    def _body(self, ind, stmts):
        for i, st in enumerate(stmts):
            for v in self.hoist.get((id(stmts), i), []):
                t = self.var_types.get(v)
                if t is None or (isinstance(t, tuple) and '?' in t): raise Unsupported(f'type of hoisted local {v}')
                self.locals[v] = t; self.declared.add(v)
                self.emit(ind, f'let mut {esc(v)} : {lean_type(t)} := {self.default_of(t)}')
            self.stmt(ind, st)

    def ctor(self, ind, v: ast.Call):
        """`AttackGraphNode(k = v, ..)` / `Attacker(k = v, ..)`: allocation of a fresh object with these fields"""
        cls = CLASS_TYPE[v.func.id]
        if v.args: raise Unsupported('positional constructor arguments')
        given, fields = set(), []
        for kw in v.keywords:
            if kw.arg is None or kw.arg not in ATTRS[cls] or kw.arg in given: raise Unsupported(f'constructor argument {kw.arg}')
            given.add(kw.arg)
            x, t = self.expr(kw.value)
            fields.append(f'{kw.arg} := {self.coerce(x, t, ATTRS[cls][kw.arg])}')
        for req in ({'node': ('type', 'name'), 'att': ('name',)}[cls]):
            if req not in given: raise Unsupported(f'constructor without {req}')
        tmp = self.fresh('r')
        self.emit(ind, f's.alloc{"N" if cls == "node" else "A"} {{ ' + ', '.join(fields) + ' }')
        self.lines[-1] = '  ' * ind + f'let {tmp} := ' + self.lines[-1].lstrip()
        self.emit(ind, f's := {tmp}.1')
        return f'{tmp}.2', cls

    def ret_unit(self):
        return 'return s' if self.fn.mutates else 'return ()'

    def stmt(self, ind, st):
        if isinstance(st, ast.Expr):
            v = st.value
            if isinstance(v, ast.Constant) and isinstance(v.value, str): return       # docstring
            if is_logger_call(v): return
            if isinstance(v, ast.Call):
                # list.append / list.remove on a heap list or a local list
                if isinstance(v.func, ast.Attribute) and v.func.attr in ('append', 'remove') and len(v.args) == 1:
                    tgt = v.func.value
                    l, lt = self.expr(tgt)
                    if isinstance(lt, tuple) and lt[0] == 'list':
                        x, xt = self.expr(v.args[0])
                        if lt[1] == '?' and isinstance(tgt, ast.Name):
                            lt = ('list', xt); self.locals[tgt.id] = lt
                        if xt != lt[1]: raise Unsupported(f'{v.func.attr} of {xt} to {lt}')
                        if v.func.attr == 'append':
                            new = f'({l} ++ [{x}])'
                        else:
                            tmp = self.fresh('l')
                            self.emit(ind, f'let {tmp} ← pyRemove {l} {x}')
                            new = tmp
                        if isinstance(tgt, ast.Name): self.emit(ind, f'{esc(tgt.id)} := {new}')
                        elif isinstance(tgt, ast.Attribute): self.write_attr(ind, tgt, new)
                        else: raise Unsupported('append target')
                        return
                if isinstance(v.func, ast.Attribute) and v.func.attr == 'extend' and len(v.args) == 1 and isinstance(v.func.value, ast.Name):
                    tgt = v.func.value
                    l, lt = self.expr(tgt)
                    x, xt = self.expr(v.args[0])
                    if isinstance(lt, tuple) and lt[0] == 'list' and isinstance(xt, tuple) and xt[0] == 'list':
                        if lt[1] == '?': lt = xt; self.locals[tgt.id] = lt
                        if xt != lt: raise Unsupported(f'extend of {xt} to {lt}')
                        self.emit(ind, f'{esc(tgt.id)} := ({l} ++ {x})')
                        return
                r = self.resolve_call(v)
                if r:
                    f, recv, args = r
                    la = self.call_args(f, recv, args)
                    txt = f'{f.lean} {self.fuel_arg(f)}{self.ctx(f)}' + ' '.join(la)
                    if f.mutates:
                        self.emit(ind, f's ← {txt.strip()}' if f.raises else f's := {txt.strip()}')
                    elif f.raises:
                        self.emit(ind, f'let _ ← {txt.strip()}')
                    return
            raise Unsupported(f'statement {ast.unparse(st)}')
        if isinstance(st, ast.Pass): return
        if isinstance(st, ast.Continue):
            self.emit(ind, 'continue'); return
        if isinstance(st, ast.AnnAssign) and st.value is not None and st.simple == 0:
            # `self.x: T = v`: the annotation of an attribute is not evaluated
            st = ast.copy_location(ast.Assign(targets=[st.target], value=st.value), st)
        if isinstance(st, ast.Assign):
            if len(st.targets) != 1: raise Unsupported('multiple assignment')
            tgt = st.targets[0]
            if isinstance(tgt, ast.Attribute):
                _, bt0 = self.expr(tgt.value)
                if (bt0, tgt.attr) in WRITE_ONLY:
                    self.expr(st.value)            # must be an expression of the supported subset
                    return
                if bt0 == 'graph' and ATTRS['graph'].get(tgt.attr) in ENV_TYPES:
                    # `self.model = model` / `self.lang_graph = lang_graph`: the parameter is the environment
                    if isinstance(st.value, ast.Name) and self.locals.get(st.value.id) == ATTRS['graph'][tgt.attr] \
                            and st.value.id in {pn for pn, _ in self.fn.params}:
                        return
                    raise Unsupported(f'assignment to self.{tgt.attr}')
            if isinstance(tgt, ast.Tuple) and all(isinstance(x, ast.Name) for x in tgt.elts):
                x, t = self.expr(st.value)
                if not (isinstance(t, tuple) and t[0] == 'tuple' and len(t) - 1 == len(tgt.elts)): raise Unsupported('tuple unpacking')
                tmp = self.fresh('r')
                self.emit(ind, f'let {tmp} := {x}')
                for i, (nm, ct) in enumerate(zip(tgt.elts, t[1:])):
                    if nm.id == '_' or nm.id in self.skip_locals: continue
                    proj = f'{tmp}.{i + 1}' if len(tgt.elts) == 2 else None
                    if proj is None: raise Unsupported('tuple of more than two components')
                    self.first_types.setdefault(nm.id, ct)
                    if nm.id in self.locals and nm.id in self.declared:
                        self.emit(ind, f'{esc(nm.id)} := {self.coerce(proj, ct, self.locals[nm.id]) if self.locals[nm.id] != ("list", "?") else proj}')
                        if self.locals[nm.id] == ('list', '?'): self.locals[nm.id] = ct
                    else:
                        self.locals[nm.id] = ct; self.declared.add(nm.id)
                        self.emit(ind, f'let mut {esc(nm.id)} : {lean_type(ct)} := {proj}')
                return
            if isinstance(tgt, ast.Name) and tgt.id in self.skip_locals:
                if not isinstance(st.value, (ast.Constant, ast.JoinedStr)) and not \
                        (isinstance(st.value, ast.BinOp) and all(isinstance(n, (ast.Constant, ast.BinOp, ast.operator, ast.expr_context, ast.Name, ast.Attribute)) for n in ast.walk(st.value))):
                    raise Unsupported(f'unused local {tgt.id} with a non-constant value')
                return
            if isinstance(st.value, ast.Call) and isinstance(st.value.func, ast.Name) and \
                    CLASS_TYPE.get(st.value.func.id) in STORE:
                if not (isinstance(tgt, ast.Name) and self.fn.mutates): raise Unsupported('constructor call target')
                x, t = self.ctor(ind, st.value)
            else:
                x, t = self.expr(st.value)
            if isinstance(tgt, ast.Name):
                self.narrow.pop(ast.dump(ast.Name(id=tgt.id, ctx=ast.Load())), None)
                self.first_types.setdefault(tgt.id, t)
                if tgt.id in self.locals and tgt.id in self.declared and self.locals[tgt.id] == ('opt', '?') and \
                        t != ('opt', '?'):
                    # `x = None` earlier: the type of the local is Optional[type of this value]
                    nt = t if (isinstance(t, tuple) and t[0] == 'opt') else ('opt', t)
                    self.locals[tgt.id] = nt; self.first_types[tgt.id] = nt
                if tgt.id in self.locals and tgt.id in self.declared:
                    self.emit(ind, f'{esc(tgt.id)} := {self.coerce(x, t, self.locals[tgt.id]) if self.locals[tgt.id] != ("list", "?") else x}')
                    if self.locals[tgt.id] == ('list', '?'): self.locals[tgt.id] = t
                else:
                    self.locals[tgt.id] = t
                    self.declared.add(tgt.id)
                    if isinstance(t, tuple) and '?' in t and not self.dry:
                        t2 = self.var_types.get(tgt.id)
                        if t2 is not None and not (isinstance(t2, tuple) and '?' in t2): t = t2; self.locals[tgt.id] = t
                    ann = '' if (isinstance(t, tuple) and '?' in t) else f' : {lean_type(t)}'
                    self.emit(ind, f'let mut {esc(tgt.id)}{ann} := {x}')
                return
            if isinstance(tgt, ast.Attribute):
                base, bt = self.expr(tgt.value)
                table = ATTRS.get(bt, {})
                if tgt.attr not in table: raise Unsupported(f'assignment to {bt}.{tgt.attr}')
                self.write_attr(ind, tgt, self.coerce(x, t, table[tgt.attr]))
                return
            if isinstance(tgt, ast.Subscript):
                d, dt = self.expr(tgt.value)
                if isinstance(dt, tuple) and dt[0] == 'dict' and isinstance(tgt.value, ast.Attribute):
                    k, kt = self.expr(tgt.slice)
                    k = self.as_int(k, kt) if dt[1] == 'int' else k
                    if t != dt[2]: raise Unsupported('dict value type')
                    self.write_attr(ind, tgt.value, f'dictSet {d} {k} {x}')
                    return
            raise Unsupported(f'assignment target {ast.unparse(tgt)}')
        if isinstance(st, ast.Delete):
            if len(st.targets) == 1 and isinstance(st.targets[0], ast.Subscript) and isinstance(st.targets[0].value, ast.Attribute):
                tg = st.targets[0]
                d, dt = self.expr(tg.value)
                if isinstance(dt, tuple) and dt[0] == 'dict':
                    k, kt = self.expr(tg.slice)
                    k = self.as_int(k, kt) if dt[1] == 'int' else k
                    tmp = self.fresh('d')
                    self.emit(ind, f'let {tmp} ← dictDel {d} {k}')
                    self.write_attr(ind, tg.value, tmp)
                    return
            raise Unsupported(f'del {ast.unparse(st)}')
        if isinstance(st, ast.Return):
            if st.value is None or (isinstance(st.value, ast.Constant) and st.value.value is None):
                self.emit(ind, self.ret_unit()); return
            if self.fn.mutates: raise Unsupported('value returned from a mutating function')
            x, t = self.expr(st.value)
            self.emit(ind, f'return {self.coerce(x, t, self.fn.ret)}')
            return
        if isinstance(st, ast.Raise):
            name = None
            if isinstance(st.exc, ast.Call) and isinstance(st.exc.func, ast.Name): name = st.exc.func.id
            self.emit(ind, f'throw {EXC.get(name, "PyErr.other")}')
            return
        if isinstance(st, ast.Assert):
            c, ct = self.expr(st.test)
            self.emit(ind, f'if !({self.truthy(c, ct)}) then')
            self.emit(ind + 1, 'throw PyErr.assertionError')
            return
        if isinstance(st, ast.If):
            if is_logger_call(st.test):
                if only_logging(st.body) and not st.orelse: return
                raise Unsupported('logger guard around non-logging code')
            # `if not x: raise E` on an Optional local: afterwards x is known to be present
            t0 = st.test
            body0 = [b for b in st.body if not (isinstance(b, ast.Expr) and (is_logger_call(b.value) or isinstance(b.value, ast.Constant)))
                     and not (isinstance(b, ast.Assign) and len(b.targets) == 1 and isinstance(b.targets[0], ast.Name)
                              and b.targets[0].id in self.skip_locals)]
            if isinstance(t0, ast.UnaryOp) and isinstance(t0.op, ast.Not) and isinstance(t0.operand, ast.Name) and not st.orelse \
                    and len(body0) == 1 and isinstance(body0[0], (ast.Raise, ast.Continue)) and self.monadic:
                x, xt = self.expr(t0.operand)
                if isinstance(xt, tuple) and xt[0] == 'opt' and xt[1] in ('lgasset', 'node', 'att', 'asset_obj'):
                    if isinstance(body0[0], ast.Continue):
                        leave = 'continue'
                    else:
                        name = None
                        exc = body0[0].exc
                        if isinstance(exc, ast.Call) and isinstance(exc.func, ast.Name): name = exc.func.id
                        leave = f'throw {EXC.get(name, "PyErr.other")}'
                    v = self.fresh(t0.operand.id)
                    self.emit(ind, f'let {v} ← match {x} with')
                    self.emit(ind + 1, '| some v => pure v')
                    self.emit(ind + 1, f'| none => {leave}')
                    self.narrow[ast.dump(t0.operand)] = (v, xt[1])
                    return
            # `if not x: raise E` on an Optional[str] (local or attribute of a parameter object): afterwards x is
            # a non-empty string
            if isinstance(t0, ast.UnaryOp) and isinstance(t0.op, ast.Not) and isinstance(t0.operand, (ast.Name, ast.Attribute)) \
                    and not st.orelse and len(body0) == 1 and isinstance(body0[0], ast.Raise) and self.monadic \
                    and ast.dump(t0.operand) not in self.narrow:
                x, xt = self.expr(t0.operand)
                pure_operand = isinstance(t0.operand, ast.Name) or \
                    (isinstance(t0.operand.value, ast.Name) and self.locals.get(t0.operand.value.id) in ('attinfo', 'asset_obj'))
                if xt == ('opt', 'str') and pure_operand:
                    name = None
                    exc = body0[0].exc
                    if isinstance(exc, ast.Call) and isinstance(exc.func, ast.Name): name = exc.func.id
                    self.emit(ind, f'if !({self.truthy(x, xt)}) then')
                    self.emit(ind + 1, f'throw {EXC.get(name, "PyErr.other")}')
                    self.narrow[ast.dump(t0.operand)] = (f'(optStrVal {x})', 'str')
                    return
            # narrowing on an Optional value
            t = st.test
            if isinstance(t, (ast.Name, ast.Attribute)):
                x, xt = self.expr(t)
                if isinstance(xt, tuple) and xt[0] == 'opt' and xt[1] != 'dictS':
                    v = self.fresh('v')
                    self.emit(ind, f'match {x} with')
                    self.emit(ind, f'| some {v} =>')
                    key = ast.dump(t)
                    saved = self.narrow.get(key)
                    self.narrow[key] = (v, xt[1])
                    self.body(ind + 1, st.body)
                    if saved is None: del self.narrow[key]
                    else: self.narrow[key] = saved
                    self.emit(ind, '| none =>')
                    self.body(ind + 1, st.orelse)
                    return
            c, ct = self.expr(t)
            self.emit(ind, f'if {self.truthy(c, ct)} then')
            self.body(ind + 1, st.body)
            if st.orelse:
                self.emit(ind, 'else')
                self.body(ind + 1, st.orelse)
            return
        if isinstance(st, ast.For):
            names = [st.target] if isinstance(st.target, ast.Name) else \
                (list(st.target.elts) if isinstance(st.target, ast.Tuple) else [])
            if st.orelse or not names or not all(isinstance(x, ast.Name) for x in names): raise Unsupported('for shape')
            it, itt = self.expr(st.iter)
            if not (isinstance(itt, tuple) and itt[0] == 'list'): raise Unsupported(f'iteration over {itt}')
            # a live heap list may only be iterated if the body cannot mutate that attribute (lists of the
            # environment -- model.assets, model.attackers, entry points -- are values: the translated code has
            # no way of writing them, an attempt is Unsupported)
            src = st.iter
            if isinstance(src, ast.Attribute) and self.expr(src.value)[1] in ('graph', 'node', 'att'):
                probe = Fn.__new__(Fn); probe.calls = set(); probe.mutates = probe.raises = False; probe.mut_attrs = set()
                by_name: dict[str, list[Fn]] = {}
                for f in self.fns.values(): by_name.setdefault(f.pyname, []).append(f)
                ef = Effects(probe, by_name, {k: v for k, v in self.locals.items() if isinstance(v, str)})
                for b in st.body: ef.visit(b)
                muts = set(probe.mut_attrs)
                for c in probe.calls: muts |= self.fns[c].mut_attrs
                if src.attr in muts:
                    raise Unsupported(f'loop over live list .{src.attr} whose body may mutate .{src.attr}')
            if isinstance(st.target, ast.Tuple):
                if not (isinstance(itt[1], tuple) and itt[1][0] == 'tuple' and len(itt[1]) - 1 == len(names)):
                    raise Unsupported('tuple unpacking in for')
                vts = list(zip([x.id for x in names], itt[1][1:]))
                pat = '(' + ', '.join(esc(v) for v, _ in vts) + ')'
            else:
                vts = [(st.target.id, itt[1])]
                pat = esc(st.target.id)
            saved = {v: self.locals.get(v) for v, _ in vts}
            # a loop target that is also a declared local (accepted by `scope_analysis` only where the two uses
            # cannot meet): Lean does not let a `for` binding shadow a `let mut`, the element gets a fresh name
            ren = {}
            if not isinstance(st.target, ast.Tuple) and id(st) in self.shadowing:
                v = st.target.id
                ren[v] = self.fresh(v); pat = esc(ren[v])
            for v, vt in vts: self.locals[v] = vt
            self.emit(ind, f'for {pat} in {it} do')
            saved_narrow = {}
            for v, nv in ren.items():
                key = ast.dump(ast.Name(id=v, ctx=ast.Load()))
                saved_narrow[key] = self.narrow.get(key)
                self.narrow[key] = (esc(nv), self.locals[v])
            self.body(ind + 1, st.body)
            for key, old in saved_narrow.items():
                if old is None: self.narrow.pop(key, None)
                else: self.narrow[key] = old
            for v, _ in vts:
                if saved[v] is None: del self.locals[v]
                else: self.locals[v] = saved[v]
            return
        if isinstance(st, ast.While):
            # idiom: while x in L: L.remove(x)
            t = st.test
            if isinstance(t, ast.Compare) and len(t.ops) == 1 and isinstance(t.ops[0], ast.In) and len(st.body) == 1 \
                    and isinstance(st.body[0], ast.Expr) and isinstance(st.body[0].value, ast.Call):
                c = st.body[0].value
                if isinstance(c.func, ast.Attribute) and c.func.attr == 'remove' and len(c.args) == 1 and \
                        ast.dump(c.func.value) == ast.dump(t.comparators[0]) and ast.dump(c.args[0]) == ast.dump(t.left) \
                        and isinstance(c.func.value, ast.Attribute):
                    l, lt = self.expr(c.func.value); x, xt = self.expr(t.left)
                    if isinstance(lt, tuple) and lt[0] == 'list' and lt[1] == xt:
                        self.write_attr(ind, c.func.value, f'pyRemoveAll {l} {x}')
                        return
            if not self.fn.takes_env: raise Unsupported('while loop')
            # general loop: unrolled at most env.whileFuel times; if the condition still holds then, the translated
            # function raises PyErr.nonTermination (the Python would go on; C01 proves this unreachable)
            c, ct = self.expr(t)
            self.emit(ind, 'for _ in List.range env.whileFuel do')
            self.emit(ind + 1, f'if !({self.truthy(c, ct)}) then')
            self.emit(ind + 2, 'break')
            self.body(ind + 1, st.body)
            c2, ct2 = self.expr(t)
            self.emit(ind, f'if {self.truthy(c2, ct2)} then')
            self.emit(ind + 1, 'throw PyErr.nonTermination')
            return
        if isinstance(st, ast.Match):
            subj, stt = self.expr(st.subject)
            if stt != 'str': raise Unsupported('match subject type')
            sv = self.fresh('subject')
            self.emit(ind, f'let {sv} := {subj}')
            first = True
            for i, case in enumerate(st.cases):
                if case.guard is not None: raise Unsupported('match guard')
                lits = self.pattern_lits(case.pattern)
                if lits is None:
                    if i != len(st.cases) - 1: raise Unsupported('wildcard not last')
                    if first: raise Unsupported('match with only a wildcard')
                    self.emit(ind, 'else')
                else:
                    cond = ' || '.join(f'{sv} == "{l}"' for l in lits)
                    self.emit(ind, ('if ' if first else 'else if ') + cond + ' then')
                first = False
                self.body(ind + 1, case.body)
            return
        raise Unsupported(f'statement {type(st).__name__}')

    def pattern_lits(self, p):
        if isinstance(p, ast.MatchValue) and isinstance(p.value, ast.Constant) and isinstance(p.value.value, str):
            return [p.value.value]
        if isinstance(p, ast.MatchOr):
            out = []
            for q in p.patterns:
                l = self.pattern_lits(q)
                if l is None: raise Unsupported('wildcard inside |')
                out += l
            return out
        if isinstance(p, ast.MatchAs) and p.pattern is None and p.name is None:
            return None
        raise Unsupported('match pattern')

    # ---- scoping of local variables
    def scope_analysis(self):
        """Python locals live in the whole function, Lean's `let mut` in its block.  Every local is declared in
        the innermost block that contains all its occurrences: by its first assignment if that is a statement of
        that block, otherwise by `let mut v : T := <default>` in front of the first statement that mentions it.
        Locals that are only read by dropped code (logging, exception messages) are not translated at all."""
        fn = self.fn.node
        params = {a.arg for a in fn.args.args}
        occ: dict[str, list] = {}          # name -> [(path, is_direct_assign)]
        def walk_expr(e, path):
            for n in ast.walk(e):
                if isinstance(n, ast.Name) and n.id not in params and not bound.get(n.id):
                    occ.setdefault(n.id, []).append((path, False, isinstance(n.ctx, ast.Load)))
        def walk_block(stmts, path):
            for i, st in enumerate(stmts):
                p = path + ((id(stmts), i),)
                self.block_of[id(stmts)] = stmts
                if isinstance(st, ast.Expr):
                    if is_logger_call(st.value) or isinstance(st.value, ast.Constant): continue
                    walk_expr(st.value, p)
                elif isinstance(st, ast.Assign):
                    walk_expr(st.value, p)
                    for t in st.targets:
                        if isinstance(t, ast.Name):
                            if bound.get(t.id): raise Unsupported(f'assignment to the loop variable {t.id} inside its loop')
                            if t.id not in params: occ.setdefault(t.id, []).append((p, True, False))
                        elif isinstance(t, ast.Tuple) and all(isinstance(x, ast.Name) for x in t.elts):
                            for x in t.elts:
                                if bound.get(x.id): raise Unsupported(f'assignment to the loop variable {x.id} inside its loop')
                                if x.id not in params and x.id != '_': occ.setdefault(x.id, []).append((p, True, False))
                        else: walk_expr(t, p)
                elif isinstance(st, ast.If):
                    if is_logger_call(st.test): continue
                    walk_expr(st.test, p); walk_block(st.body, p); walk_block(st.orelse, p)
                elif isinstance(st, ast.For):
                    walk_expr(st.iter, p); loopvars.add(st.target.id if isinstance(st.target, ast.Name) else '')
                    if isinstance(st.target, ast.Tuple):
                        loopvars.update(x.id for x in st.target.elts if isinstance(x, ast.Name))
                    # inside the loop its target names the element (a `for` binding of Lean, which shadows a
                    # declared local of that name): those occurrences are not occurrences of the local
                    tv = [x.id for x in ([st.target] if isinstance(st.target, ast.Name) else
                                         list(getattr(st.target, 'elts', []))) if isinstance(x, ast.Name)]
                    for v in tv:
                        bound[v] = bound.get(v, 0) + 1; loop_stmts.setdefault(v, []).append(p)
                    walk_block(st.body, p)
                    for v in tv: bound[v] -= 1
                elif isinstance(st, ast.While):
                    walk_expr(st.test, p); walk_block(st.body, p)
                elif isinstance(st, ast.Match):
                    walk_expr(st.subject, p)
                    for c in st.cases: walk_block(c.body, p)
                elif isinstance(st, ast.Return):
                    if st.value is not None: walk_expr(st.value, p)
                elif isinstance(st, ast.Assert):
                    walk_expr(st.test, p)
                elif isinstance(st, ast.Raise):
                    pass
                elif isinstance(st, ast.Delete):
                    for t in st.targets: walk_expr(t, p)
                else:
                    for n in ast.walk(st):
                        if isinstance(n, ast.expr): walk_expr(n, p); break
        loopvars: set[str] = set()
        bound: dict[str, int] = {}                  # loop targets of the enclosing `for` statements
        loop_stmts: dict[str, list] = {}            # name -> paths of the `for` statements that bind it
        self.block_of = {}
        walk_block(fn.body, ())
        self.skip_locals = set()
        self.hoist: dict[tuple, list[str]] = {}     # (block id, stmt index) -> names to declare in front of it
        self.shadowing: set[int] = set()            # `for v in ..` statements in the scope of a declared local v
        for v, lst in occ.items():
            if v in ('logger', 'logging', 'json'): continue
            if not any(a for _, a, _ in lst): continue            # never assigned here: not a local
            if v in loopvars:
                # a name that is an assigned local AND (elsewhere) a loop target: after `for v in ..` Python's `v`
                # keeps the last element, Lean's declared local its old value.  Accepted only where that cannot be
                # observed: every occurrence of the local precedes every `for v` statement, and no loop encloses both
                for lp in loop_stmts[v]:
                    for p, _, _ in lst:
                        k = 0
                        while k < min(len(lp), len(p)) and lp[k] == p[k]: k += 1
                        if any(isinstance(self.block_of[b][i], (ast.For, ast.While)) for b, i in lp[:k]):
                            raise Unsupported(f'local {v} is also a loop variable inside a common loop')
                        if k < min(len(lp), len(p)) and lp[k][0] == p[k][0] and not p[k][1] < lp[k][1]:
                            raise Unsupported(f'local {v} is used after a loop with the loop variable {v}')
            if not any(l for _, _, l in lst):
                self.skip_locals.add(v); continue
            paths = [p for p, _, _ in lst]
            k = 0
            while all(len(p) > k for p in paths) and len({p[k][0] for p in paths}) == 1: k += 1
            if k == 0: raise Unsupported(f'scope of {v}')
            blk = paths[0][k - 1][0]
            first = min(p[k - 1][1] for p in paths)
            direct = any(a and len(p) == k and p[k - 1][1] == first for p, a, _ in lst)
            if not direct:
                self.hoist.setdefault((blk, first), []).append(v)
            for lp in loop_stmts.get(v, []):            # `for v` statements inside the block that declares the local v
                if any(b == blk for b, _ in lp): self.shadowing.add(id(self.block_of[lp[-1][0]][lp[-1][1]]))

    DEFAULTS = {'bool': 'false', 'int': '0', 'str': '""', 'node': '0', 'att': '0'}
    def default_of(self, t):
        if t in self.DEFAULTS: return self.DEFAULTS[t]
        if isinstance(t, tuple) and t[0] == 'opt': return 'none'
        if isinstance(t, tuple) and t[0] in ('list', 'dict'): return '[]'
        raise Unsupported(f'default value of {t}')

    # ---- whole function
    def translate(self) -> str:
        self.scope_analysis()
        self.var_types = {}
        if True:
            # dry run to learn the types of the hoisted locals
            dry = Tr(self.fn, self.fns, self.by_method)
            dry.scope_analysis(); dry.hoist = {}; dry.var_types = {}; dry.dry = True
            dry._translate()
            self.var_types = dict(dry.first_types)
            for v, t in list(self.var_types.items()):        # `x = []` gets its element type from a later append / extend
                if isinstance(t, tuple) and '?' in t and v in dry.locals: self.var_types[v] = dry.locals[v]
        return self._translate()

    dry = False
    def _translate(self) -> str:
        fn = self.fn
        self.declared: set[str] = set()
        self.first_types: dict[str, object] = {}
        params = []
        for i, (pn, pt) in enumerate(fn.params):
            self.locals[pn] = pt
            if pt == 'graph' or pt in ENV_TYPES: continue
            params.append(f'({esc(pn)} : {lean_type(pt)})')
        if fn.mutates:
            if fn.ret != 'none': raise Unsupported(f'{fn.lean}: mutating function returning a value')
            rty = 'H'
        else:
            rty = 'Unit' if fn.ret == 'none' else lean_type(fn.ret)
        if fn.raises: rty = f'Except PyErr {rty}'
        ind = 2 if fn.recursive else 1
        if fn.mutates: self.emit(ind, 'let mut s := s')
        self.body(ind, fn.node.body)
        last = fn.node.body[-1]
        if not isinstance(last, (ast.Return, ast.Raise, ast.Match)) or fn.ret == 'none':
            self.emit(ind, self.ret_unit())
        elif isinstance(last, ast.Match):
            pass
        run = 'do' if fn.raises else 'Id.run do'
        head = f'def {fn.lean} ' + ('(fuel : Nat) ' if fn.recursive else '') + ('(s : H) ' if fn.takes_s else '') + \
            ('(env : EvalEnv) ' if fn.takes_env else '') + ' '.join(params)
        head = head.rstrip() + f' : {rty} :='
        src = f'-- {MODULES[fn.module][0]}: ' + (f'{fn.cls}.' if fn.cls else '') + fn.pyname + \
            (f'  (slice: {SLICES[fn.slice][0]})' if fn.slice else '') + '\n'
        if fn.recursive:
            # out of fuel: a mutating function returns the heap as it is (the propagation functions; C08 proves the
            # supplied fuel sufficient), a function that returns a value raises RecursionError like CPython
            base = ('pure s' if fn.raises else 's') if fn.mutates else 'throw PyErr.recursionError'
            src += head + '\n  match fuel with\n  | 0 => ' + base + '\n  | fuel + 1 => ' + run + '\n'
        else:
            src += head + ' ' + run + '\n'
        return src + '\n'.join(self.lines) + '\n'

HEADER = '''/- GENERATED by translators/py2lean.py from {path} — do not edit.
   Regenerated and compared on every run of the checks; see MalVerif/Py/Prelude.lean for the conventions. -/
{imports}
set_option linter.unusedVariables false
namespace MalVerif.Py.Gen
open MalVerif.Py

'''

def generate(repo, modules=None) -> dict[str, str]:
    """translate all modules, or (`modules` given) only those and what they import: a function elsewhere that has
    left the supported subset then does not stand in the way"""
    order = closure(modules) if modules else MODULE_ORDER
    fns, by_method = collect(repo, order)
    analyse(fns)
    out = {}
    for mod in order:
        path, sel = MODULES[mod]
        imports = 'import MalVerif.Py.Prelude\n' + ''.join(f'import MalVerif.Py.Gen.{m}\n' for m in IMPORTS[mod])
        txt = HEADER.format(path=path, imports=imports.rstrip())
        for entry in sel:
            cls, name = entry[0], entry[1]
            if len(entry) > 2: name = f'{name}_{entry[2]}'
            f = by_method[(CLASS_TYPE[cls] if cls else None, name)]
            txt += Tr(f, fns, by_method).translate() + '\n'
        txt += 'end MalVerif.Py.Gen\n'
        out[mod] = txt
    return out

def main(argv):
    repo = argv[1]
    try:
        out = generate(repo)
    except Unsupported as e:
        print(f'UNSUPPORTED: {e}')
        return 3
    if argv[2] == '--check':
        bad = [m for m, t in out.items() if not os.path.exists(os.path.join(argv[3], m + '.lean'))
               or open(os.path.join(argv[3], m + '.lean'), encoding='utf-8').read() != t]
        print('changed: ' + ' '.join(bad) if bad else 'unchanged')
        return 1 if bad else 0
    os.makedirs(argv[2], exist_ok=True)
    for m, t in out.items():
        with open(os.path.join(argv[2], m + '.lean'), 'w', encoding='utf-8') as fh: fh.write(t)
    return 0

if __name__ == '__main__':
    sys.exit(main(sys.argv))
