#!/usr/bin/env python3
"""py2lean_visitor — translate the MAL compiler's parse-tree visitor (mal_visitor.py) to Lean 4.

    py2lean_visitor.py <repo> <outdir>       writes <outdir>/<Module>.lean for every module
    py2lean_visitor.py <repo> --check <dir>  exit 0 iff regenerated text == files in <dir>

Two modules are generated:
  * `Parser`  — tables read off the ANTLR-generated `mal_parser.py`: for every context class and every accessor
                method whether it returns one optional element or a list (`getTypedRuleContext(X,0)` /
                `getTypedRuleContexts(X)` / `getToken(X,0)` / `getTokens(X)`), the rule of every context class,
                the `visit<Rule>` method every `accept` calls, the token names;
  * `Visitor` — every method of `class malVisitor` as a Lean function `Self → V → Except Err V`, the dynamic dispatch
                of `self.visit` (`tree.accept(self)`: the `visit<Rule>` method if the class has one, else
                `visitChildren`), and the fuel-indexed fixed point `visitF`.

The translation is syntax directed and thin.  The Python is dynamically typed and so is the Lean: one value type
`V` (`MalVerif/Py/PreludeVisitor.lean`), every Python operation is one prelude function, one Python statement
becomes one `do` statement (sub-expressions with control flow of their own — conditional expressions, `and` / `or`,
`:=`, comprehensions, `pop` — become the statements Python executes for them, in Python's evaluation order).
Everything that is not recognised raises `Unsupported`; the translator never guesses.  Dropped, and only that: docstrings, `__init__` (it stores the compiler),
calls on `logger` whose arguments contain no call.  Refused in particular:
  * a `for` over a live container whose body may change that container;
  * aliasing of a container that is changed in place afterwards (`x = y`, `d[k] = y`, `l.append(y)` followed by a
    mutation of `y`): containers are values in the Lean, so only aliasing that cannot be observed is let through;
  * reading a loop variable after its loop, re-assigning a loop variable, `break` inside `while`.
"""
from __future__ import annotations
import ast, os, sys

class Unsupported(Exception):
    pass

PARSER_PY = 'maltoolbox/language/compiler/mal_parser.py'
VISITOR_PY = 'maltoolbox/language/compiler/mal_visitor.py'
VISITOR_CLASS = 'malVisitor'
PARSER_CLASS = 'malParser'
MODULE_ORDER = ['Parser', 'Visitor']

TIE = {
    'gen_dir': 'MalVerif/Py/GenVisitor',
    'gen_modules': MODULE_ORDER,
    'order': 40,
    'chain': ['MalVerif.Py.AbsVisitor', 'MalVerif.Py.TieVisitorBase', 'MalVerif.Py.TieVisitorLeaves',
              'MalVerif.Py.TieVisitorResolve', 'MalVerif.Py.TieVisitorClause', 'MalVerif.Py.TieVisitorExpr',
              'MalVerif.Py.TieVisitorTtc', 'MalVerif.Py.TieVisitorAssoc', 'MalVerif.Py.TieVisitorAssocs',
              'MalVerif.Py.TieVisitorMal', 'MalVerif.Py.TieVisitorEq', 'MalVerif.Py.TieVisitorTop',
              'MalVerif.Py.TieVisitorPos', 'MalVerif.Py.TieVisitorStepAux', 'MalVerif.Py.TieVisitorStepNode',
              'MalVerif.Py.TieVisitorStepStages', 'MalVerif.Py.TieVisitorStep', 'MalVerif.Py.TieVisitorAsset',
              'MalVerif.Py.TieVisitorCategory', 'MalVerif.Py.TieVisitorDecls',
              'MalVerif.Py.TieVisitorLex', 'MalVerif.Py.TieVisitorFile',
              'MalVerif.PropsGen.C04', 'MalVerif.PropsGen.C17'],
    'needs': {
        'C04': ['MalVerif.Py.TieVisitorTop', 'MalVerif.Py.TieVisitorTtc', 'MalVerif.Py.TieVisitorAssoc',
                'MalVerif.Py.TieVisitorAssocs', 'MalVerif.Py.TieVisitorMal', 'MalVerif.Py.TieVisitorEq',
                'MalVerif.Py.TieVisitorStepNode', 'MalVerif.Py.TieVisitorStepStages', 'MalVerif.Py.TieVisitorStep',
                'MalVerif.Py.TieVisitorAsset', 'MalVerif.Py.TieVisitorCategory', 'MalVerif.Py.TieVisitorDecls',
                'MalVerif.Py.TieVisitorFile', 'MalVerif.PropsGen.C04'],
        'C17': ['MalVerif.Py.TieVisitorAssoc', 'MalVerif.Py.TieVisitorAssocs', 'MalVerif.Py.TieVisitorMal',
                'MalVerif.Py.TieVisitorEq', 'MalVerif.Py.TieVisitorStepNode', 'MalVerif.Py.TieVisitorStepStages',
                'MalVerif.Py.TieVisitorStep', 'MalVerif.Py.TieVisitorAsset', 'MalVerif.Py.TieVisitorCategory',
                'MalVerif.Py.TieVisitorDecls', 'MalVerif.Py.TieVisitorFile', 'MalVerif.PropsGen.C04', 'MalVerif.PropsGen.C17'],
    },
    'sources': {
        'C04': 'language/compiler/mal_visitor.py: every method of malVisitor is translated (self.compiler.compile is a parameter), executed '
               'in the correspondence, and proved equal to the model: visitExpr, visitParts, visitPart, _resolve_part_ID_type, visitSetop, visitType, '
               'visitVarsubst, visitPrecondition, visitReaches, visitVariable, visitTtc, visitTtcexpr, visitTtcterm, visitTtcfact, visitTtcatom, '
               'visitTtcdist, visitNumber, visitMeta, visitTag, visitCias, visitCia, visitSteptype, visitStep, visitAsset, visitCategory, visitInclude, '
               'visitDefine, visitField, visitLinkname, visitAssociation, _post_process_multitudes, visitAssociations, visitMal — whole files: '
               'translated visitor on the tree of the model tree builder = rendered compileFile; '
               'language/compiler/mal_parser.py: the accessor methods of the context classes (tables)',
        'C17': 'language/compiler/mal_visitor.py: every method (a malformed file anywhere on the include path makes the translated compile '
               'raise: visitMal propagates the failure of self.compiler.compile; transfer of parse_exact / reject_iff through the whole-file tie)',
    },
}

LEAN_KEYWORDS = {'end', 'at', 'from', 'have', 'show', 'fun', 'then', 'else', 'do', 'in', 'let', 'match', 'with', 'if',
                 'for', 'open', 'where', 'by', 'def', 'theorem', 'instance', 'structure', 'class', 'namespace',
                 'section', 'variable', 'universe', 'import', 'return', 'mut', 'unless', 'try', 'catch', 'finally',
                 'break', 'continue', 'calc', 'obtain', 'using', 'deriving', 'extends', 'local', 'private',
                 'protected', 'set_option', 'attribute', 'macro', 'syntax', 'notation', 'infix', 'prefix', 'postfix',
                 'mutual', 'partial', 'unsafe', 'noncomputable', 'meta', 'type', 'self_', 'Type', 'Prop', 'Sort',
                 'abbrev', 'example', 'axiom', 'inductive', 'some', 'none', 'pure', 'throw', 'true', 'false'}

def esc(name: str) -> str:
    return name + '_' if name in LEAN_KEYWORDS or name.startswith(('t_', 'c_', 'w_')) else name

def lstr(s: str) -> str:
    out = '"'
    for ch in s:
        if ch == '"': out += '\\"'
        elif ch == '\\': out += '\\\\'
        elif ch == '\n': out += '\\n'
        elif ch == '\t': out += '\\t'
        elif ch == '\r': out += '\\r'
        elif 32 <= ord(ch) < 127: out += ch
        else: raise Unsupported(f'non-ASCII character in a string literal: {s!r}')
    return out + '"'

# ------------------------------------------------------------------ the generated parser: tables

class ParserInfo:
    def __init__(self):
        self.acc = []            # (rule, method, kind, target)
        self.class_rule = {}     # 'ReachesContext' -> 'reaches'
        self.rule_visit = {}     # 'reaches' -> 'visitReaches'
        self.tokens = []         # symbolic token names
        self.rules = []          # rule names in order

def _src(n): return ast.unparse(n).replace(' ', '')

def read_parser(repo) -> ParserInfo:
    path = os.path.join(repo, PARSER_PY)
    tree = ast.parse(open(path, encoding='utf-8').read())
    cls = next((n for n in tree.body if isinstance(n, ast.ClassDef) and n.name == PARSER_CLASS), None)
    if cls is None: raise Unsupported(f'{PARSER_PY}: class {PARSER_CLASS} not found')
    info = ParserInfo()
    consts = {}
    for st in cls.body:
        if isinstance(st, ast.Assign) and len(st.targets) == 1 and isinstance(st.targets[0], ast.Name):
            name = st.targets[0].id
            if name == 'symbolicNames':
                info.tokens = [e.value for e in st.value.elts if e.value != '<INVALID>']
            elif name == 'ruleNames':
                info.rules = [e.value for e in st.value.elts]
            elif isinstance(st.value, ast.Constant) and isinstance(st.value.value, int):
                consts[name] = st.value.value
    for i, t in enumerate(info.tokens):
        if consts.get(t) != i + 1: raise Unsupported(f'{PARSER_PY}: token constant {t} is not {i + 1}')
    info.tokens.append('EOF')
    ctxs = [n for n in cls.body if isinstance(n, ast.ClassDef) and n.name.endswith('Context')]
    # first pass: class -> rule
    for c in ctxs:
        gri = next((m for m in c.body if isinstance(m, ast.FunctionDef) and m.name == 'getRuleIndex'), None)
        if gri is None or len(gri.body) != 1 or not isinstance(gri.body[0], ast.Return):
            raise Unsupported(f'{PARSER_PY}: {c.name}.getRuleIndex')
        s = _src(gri.body[0].value)
        if not s.startswith(PARSER_CLASS + '.RULE_'): raise Unsupported(f'{PARSER_PY}: {c.name}.getRuleIndex returns {s}')
        info.class_rule[c.name] = s[len(PARSER_CLASS) + 6:]
    def target(call: ast.Call, want_index):
        """(kind, name) of `self.getToken(malParser.X, i)` / getTokens / getTypedRuleContext(s)"""
        if not (isinstance(call, ast.Call) and isinstance(call.func, ast.Attribute) and _src(call.func.value) == 'self'):
            raise Unsupported(f'{PARSER_PY}: accessor body {ast.unparse(call)}')
        f = call.func.attr
        a0 = _src(call.args[0])
        if not a0.startswith(PARSER_CLASS + '.'): raise Unsupported(f'{PARSER_PY}: accessor argument {a0}')
        a0 = a0[len(PARSER_CLASS) + 1:]
        idx = _src(call.args[1]) if len(call.args) > 1 else None
        if f in ('getToken', 'getTokens'):
            if a0 not in info.tokens: raise Unsupported(f'{PARSER_PY}: unknown token {a0}')
            name = a0
        elif f in ('getTypedRuleContext', 'getTypedRuleContexts'):
            if a0 not in info.class_rule: raise Unsupported(f'{PARSER_PY}: unknown context class {a0}')
            name = info.class_rule[a0]
        else:
            raise Unsupported(f'{PARSER_PY}: accessor calls {f}')
        if f in ('getToken', 'getTypedRuleContext'):
            if idx != want_index: raise Unsupported(f'{PARSER_PY}: accessor index {idx}, expected {want_index}')
        elif idx is not None:
            raise Unsupported(f'{PARSER_PY}: {f} with an index')
        return f, name
    for c in ctxs:
        rule = info.class_rule[c.name]
        for m in c.body:
            if not isinstance(m, ast.FunctionDef): continue
            if m.name in ('__init__', 'getRuleIndex', 'enterRule', 'exitRule'): continue
            if m.name == 'accept':
                # if hasattr(visitor, "visitX"): return visitor.visitX(self)  else: return visitor.visitChildren(self)
                st = m.body[0] if len(m.body) == 1 else None
                ok = isinstance(st, ast.If) and _src(st.test).startswith('hasattr(visitor,') and len(st.body) == 1 \
                    and len(st.orelse) == 1 and _src(st.orelse[0]) == 'returnvisitor.visitChildren(self)'
                if not ok: raise Unsupported(f'{PARSER_PY}: {c.name}.accept')
                vname = st.test.args[1].value
                if _src(st.body[0]) != f'returnvisitor.{vname}(self)': raise Unsupported(f'{PARSER_PY}: {c.name}.accept')
                info.rule_visit[rule] = vname
                continue
            params = [a.arg for a in m.args.args]
            if params == ['self'] and len(m.body) == 1 and isinstance(m.body[0], ast.Return):
                f, name = target(m.body[0].value, '0')
                info.acc.append((rule, m.name, 'tok1' if f == 'getToken' else 'rule1', name))
            elif params == ['self', 'i'] and len(m.body) == 1 and isinstance(m.body[0], ast.If) \
                    and _src(m.body[0].test) == 'iisNone' and len(m.body[0].body) == 1 and len(m.body[0].orelse) == 1 \
                    and isinstance(m.body[0].body[0], ast.Return) and isinstance(m.body[0].orelse[0], ast.Return):
                f1, n1 = target(m.body[0].body[0].value, None)
                f2, n2 = target(m.body[0].orelse[0].value, 'i')
                if n1 != n2 or (f1, f2) not in (('getTokens', 'getToken'), ('getTypedRuleContexts', 'getTypedRuleContext')):
                    raise Unsupported(f'{PARSER_PY}: {c.name}.{m.name}')
                info.acc.append((rule, m.name, 'toks' if f1 == 'getTokens' else 'rules', n1))
            else:
                raise Unsupported(f'{PARSER_PY}: {c.name}.{m.name} is not a generated accessor')
    return info

def gen_parser(info: ParserInfo) -> str:
    out = HEADER.format(path=PARSER_PY, imports='import MalVerif.Py.PreludeVisitor')
    out += '/-- `(rule, method) ↦` what the accessor method of that context class returns -/\n'
    out += 'def accTable : List ((String × String) × Acc) := [\n'
    out += ',\n'.join(f'  (({lstr(r)}, {lstr(m)}), Acc.{k} {lstr(t)})' for r, m, k, t in info.acc) + ']\n\n'
    out += '/-- context class ↦ grammar rule -/\n'
    out += 'def classRule : List (String × String) := [\n'
    out += ',\n'.join(f'  ({lstr(c)}, {lstr(r)})' for c, r in info.class_rule.items()) + ']\n\n'
    out += '/-- grammar rule ↦ the visitor method its `accept` calls -/\n'
    out += 'def ruleVisit : List (String × String) := [\n'
    out += ',\n'.join(f'  ({lstr(r)}, {lstr(v)})' for r, v in info.rule_visit.items()) + ']\n\n'
    out += '/-- symbolic token names (`malParser.symbolicNames`, and EOF) -/\n'
    out += 'def tokenNames : List String := [' + ', '.join(lstr(t) for t in info.tokens) + ']\n\n'
    out += 'end MalVerif.Py.GenVisitor\n'
    return out

# ------------------------------------------------------------------ the visitor: functions

MUTATORS = {'append', 'extend', 'update', 'pop', 'remove', 'insert', 'clear', 'setdefault', 'sort', 'reverse', 'popitem'}
PURE_METHODS = {'getText', 'getChild', 'strip', 'split', 'isdigit', 'copy', 'items', 'get'}

def root_path(e):
    """`n`, `n[k]`, `n[k][j]` -> (n, [k, j]); anything else -> None"""
    keys = []
    while isinstance(e, ast.Subscript):
        keys.append(e.slice); e = e.value
    if isinstance(e, ast.Name): return e.id, list(reversed(keys))
    return None

class FnInfo:
    def __init__(self, node: ast.FunctionDef):
        self.node = node
        self.name = node.name
        self.params = [a.arg for a in node.args.args]
        if node.args.vararg or node.args.kwarg or node.args.kwonlyargs or node.args.defaults:
            raise Unsupported(f'{node.name}: parameter list')
        if not self.params or self.params[0] != 'self': raise Unsupported(f'{node.name}: not a method')
        self.params = self.params[1:]
        self.calls = set()           # helper methods called as self.<name>(...)
        self.mut_param = None        # a parameter that is changed in place: the Lean function returns it
        self.returns_value = any(isinstance(n, ast.Return) and n.value is not None for n in ast.walk(node))

def mutated_roots(stmts, helpers=None):
    """names (parts of) which are changed in place somewhere in `stmts` -> the greatest depth of an object that is
    changed in place (0: the object the name is bound to, 1: one of its elements `n[k]`, …)"""
    res = {}
    def note(name, depth): res[name] = max(res.get(name, 0), depth)
    def note_assign_target(t):
        if isinstance(t, ast.Subscript):
            rp = root_path(t)
            if rp: note(rp[0], len(rp[1]) - 1)
        elif isinstance(t, (ast.Tuple, ast.List)):
            for x in t.elts: note_assign_target(x)
    for st in stmts:
        for n in ast.walk(st):
            if isinstance(n, ast.Assign):
                for t in n.targets: note_assign_target(t)
            elif isinstance(n, (ast.AugAssign, ast.AnnAssign)):
                note_assign_target(n.target)
            elif isinstance(n, ast.Delete):
                for t in n.targets: note_assign_target(t)
            elif isinstance(n, ast.Call) and isinstance(n.func, ast.Attribute) and n.func.attr in MUTATORS:
                recv = n.func.value
                if isinstance(recv, ast.NamedExpr): recv = recv.target
                rp = root_path(recv)
                if rp: note(rp[0], len(rp[1]))
            elif isinstance(n, ast.Call) and helpers and isinstance(n.func, ast.Attribute) and _src(n.func.value) == 'self' \
                    and n.func.attr in helpers and helpers[n.func.attr].mut_param is not None:
                for a in n.args:
                    if isinstance(a, ast.Name): note(a.id, 99)
    return res

class Alias:
    """refuses aliasing of containers that could be observed: a name that is changed in place somewhere in the
    function must not be changed in place after it has been stored in another container or bound to a second name"""
    def __init__(self, fn: FnInfo, helpers):
        self.fn = fn
        self.mut = mutated_roots(fn.node.body, helpers)
        self.helpers = helpers

    def fail(self, what): raise Unsupported(f'{self.fn.name}: {what}')

    def escapes(self, e, store: bool):
        """names of self.mut occurring in `e` in a position where the object itself is kept (`store`: `e` is kept)"""
        out = set()
        if isinstance(e, ast.Name):
            if store and e.id in self.mut: out.add(e.id)
        elif isinstance(e, (ast.Dict,)):
            for v in e.values: out |= self.escapes(v, store)
            for k in e.keys: out |= self.escapes(k, False)
        elif isinstance(e, (ast.List, ast.Tuple, ast.Set)):
            for v in e.elts: out |= self.escapes(v, store)
        elif isinstance(e, ast.IfExp):
            out |= self.escapes(e.test, False) | self.escapes(e.body, store) | self.escapes(e.orelse, store)
        elif isinstance(e, ast.BoolOp):
            for v in e.values: out |= self.escapes(v, store)
        elif isinstance(e, ast.NamedExpr):
            out |= self.escapes(e.value, True)
            if isinstance(e.value, ast.Name) and (e.value.id in self.mut or e.target.id in self.mut):
                out |= {e.value.id, e.target.id}
        elif isinstance(e, ast.Subscript):
            rp = root_path(e)
            if store and rp and rp[0] in self.mut and len(rp[1]) <= self.mut[rp[0]]:
                self.fail(f'a part of `{rp[0]}` that may be changed in place later is kept: {ast.unparse(e)}')
            out |= self.escapes(e.value, False) | self.escapes(e.slice, False)
        elif isinstance(e, ast.Call):
            f = e.func
            if isinstance(f, ast.Attribute):
                out |= self.escapes(f.value, False)
                if f.attr == 'copy' and isinstance(f.value, ast.Name) and self.mut.get(f.value.id, 0) >= 1:
                    self.fail(f'shallow copy of `{f.value.id}`, whose elements are changed in place')
                keep = f.attr in ('append', 'insert', 'setdefault')     # the argument object itself is stored
                for a in e.args: out |= self.escapes(a, keep)
            else:
                for a in e.args: out |= self.escapes(a, False)
        elif isinstance(e, (ast.ListComp, ast.SetComp, ast.GeneratorExp)):
            out |= self.escapes(e.elt, store)
            for g in e.generators: out |= self.escapes(g.iter, False)
        elif isinstance(e, ast.DictComp):
            out |= self.escapes(e.value, store) | self.escapes(e.key, False)
            for g in e.generators: out |= self.escapes(g.iter, False)
        elif isinstance(e, ast.AST):
            for c in ast.iter_child_nodes(e):
                if isinstance(c, ast.expr): out |= self.escapes(c, False)
        return out

    def stmt_mutations(self, st):
        """names changed in place by the statement itself (not by nested statements)"""
        if isinstance(st, (ast.If, ast.For, ast.While)):
            hdr = [st.test] if not isinstance(st, ast.For) else [st.iter]
            return set(mutated_roots([ast.Expr(h) for h in hdr], self.helpers))
        return set(mutated_roots([st], self.helpers))

    def run(self, stmts, esc: set) -> set:
        for st in stmts:
            bad = self.stmt_mutations(st) & esc
            if bad:
                self.fail(f'`{sorted(bad)[0]}` is changed in place after it has been stored / aliased (line {st.lineno}); '
                          f'containers are values in the translation')
            if isinstance(st, ast.Assign):
                new = set()
                for t in st.targets:
                    if isinstance(t, ast.Name):
                        if isinstance(st.value, ast.Name) and (st.value.id in self.mut or t.id in self.mut):
                            new |= {st.value.id, t.id}
                        else:
                            new |= self.escapes(st.value, True)
                            esc = esc - {t.id}
                    elif isinstance(t, (ast.Tuple, ast.List)):
                        new |= self.escapes(st.value, True)
                        esc = esc - {x.id for x in t.elts if isinstance(x, ast.Name)}
                    else:
                        new |= self.escapes(st.value, True) | self.escapes(t, False)
                esc = esc | new
            elif isinstance(st, ast.Return):
                if st.value is not None: self.escapes(st.value, False)
            elif isinstance(st, ast.Expr):
                esc = esc | self.escapes(st.value, False)
            elif isinstance(st, ast.If):
                esc = esc | self.escapes(st.test, False)
                esc = self.run(st.body, set(esc)) | self.run(st.orelse, set(esc))
            elif isinstance(st, (ast.For, ast.While)):
                esc = esc | self.escapes(st.iter if isinstance(st, ast.For) else st.test, False)
                e1 = self.run(st.body, set(esc))
                esc = esc | e1 | self.run(st.body, esc | e1)
                if st.orelse: self.fail('loop with else')
            elif isinstance(st, (ast.Continue, ast.Pass, ast.Break)):
                pass
            else:
                self.fail(f'statement {type(st).__name__}')
        return esc

def needs_stmts(e) -> bool:
    for n in ast.walk(e):
        if isinstance(n, (ast.IfExp, ast.BoolOp, ast.NamedExpr, ast.ListComp, ast.DictComp, ast.SetComp, ast.GeneratorExp)):
            return True
        if isinstance(n, ast.Call) and isinstance(n.func, ast.Attribute) and n.func.attr == 'pop':
            return True
    return False

class Tr:
    def __init__(self, fn: FnInfo, helpers: dict, pinfo: ParserInfo):
        self.fn, self.helpers, self.p = fn, helpers, pinfo
        self.lines: list[str] = []
        self.ind = 1
        self.ntmp = 0
        self.acc_methods = {m for _, m, _, _ in pinfo.acc}
        self.bound: list[str] = []          # loop / comprehension variables in scope (immutable in Lean)
        self.locals = self.collect_locals()
        self.assigned: set[str] = set()     # locals definitely assigned at this point
        self.in_while = 0

    # -------------------------------------------------------------- helpers
    def fail(self, what, node=None):
        at = f' (line {node.lineno})' if node is not None and hasattr(node, 'lineno') else ''
        raise Unsupported(f'{VISITOR_CLASS}.{self.fn.name}{at}: {what}')
    def emit(self, s): self.lines.append('  ' * self.ind + s)
    def tmp(self, base='t'):
        self.ntmp += 1
        return f'{base}_{self.ntmp}'

    def collect_locals(self):
        """names assigned by statements / `:=` (function scope), in order of first appearance; loop and comprehension
        variables are not locals (they are bound by the Lean `for`)"""
        names, loopvars = [], set()
        def targets(t):
            if isinstance(t, ast.Name): return [t.id]
            if isinstance(t, (ast.Tuple, ast.List)): return [x for e in t.elts for x in targets(e)]
            return []
        class W(ast.NodeVisitor):
            def visit_Assign(s, n):
                for t in n.targets:
                    for x in targets(t):
                        if x not in names: names.append(x)
                s.generic_visit(n)
            def visit_NamedExpr(s, n):
                if n.target.id not in names: names.append(n.target.id)
                s.generic_visit(n)
            def visit_AugAssign(s, n): raise Unsupported(f'{self.fn.name}: augmented assignment')
            def visit_For(s, n):
                for x in targets(n.target): loopvars.add(x)
                s.generic_visit(n)
            def visit_comprehension(s, n):
                for x in targets(n.target): loopvars.add(x)
                s.generic_visit(n)
            def visit_FunctionDef(s, n):
                if n is not self.fn.node: raise Unsupported(f'{self.fn.name}: nested function')
                s.generic_visit(n)
            def visit_Lambda(s, n): raise Unsupported(f'{self.fn.name}: lambda')
            def visit_Global(s, n): raise Unsupported(f'{self.fn.name}: global')
            def visit_Nonlocal(s, n): raise Unsupported(f'{self.fn.name}: nonlocal')
        W().visit(self.fn.node)
        both = loopvars & (set(names) | set(self.fn.params))
        for x in sorted(both):
            # allowed: a name that is assigned first and re-used as the variable of a later top-level `for`, and never
            # occurs after that loop (the Lean loop variable shadows the local inside the loop only)
            ok = x not in self.fn.params
            tops = self.fn.node.body
            loops = [i for i, st in enumerate(tops) if isinstance(st, ast.For) and x in targets(st.target)]
            occ = lambda st: any(isinstance(n, ast.Name) and n.id == x for n in ast.walk(st))
            if len(loops) != 1: ok = False
            else:
                i = loops[0]
                if any(occ(st) for st in tops[i + 1:]): ok = False
                inner = [n for st in tops[i].body for n in ast.walk(st)]
                if any(isinstance(n, (ast.For, ast.comprehension)) and x in targets(n.target) for n in inner): ok = False
                if any(isinstance(n, ast.Name) and n.id == x and isinstance(n.ctx, ast.Store) for n in inner): ok = False
                if any(isinstance(n, (ast.For, ast.comprehension)) and x in targets(n.target) for st in tops[:i] for n in ast.walk(st)): ok = False
            if not ok: raise Unsupported(f'{self.fn.name}: `{x}` is a loop variable and assigned elsewhere')
        return names

    def lv(self, x):
        """Lean name of a loop variable (a mutable variable cannot be shadowed in Lean: `x` re-used as a loop variable
        after having been a local gets a suffix)"""
        return esc(x) + '_loop' if x in self.locals else esc(x)

    def name(self, n: ast.Name):
        x = n.id
        if x in self.bound: return self.lv(x)
        if x in self.fn.params: return esc(x)
        if x in self.locals:
            return esc(x) if x in self.assigned else f'(← pyLocal {esc(x)})'
        self.fail(f'unknown name `{x}`', n)

    # -------------------------------------------------------------- expressions (value context)
    def operands(self, es):
        """translate in order; an operand that is evaluated before a later operand's statements is bound first"""
        out = []
        for i, e in enumerate(es):
            t = self.ex(e)
            if '(←' in t and any(needs_stmts(x) for x in es[i + 1:]):
                v = self.tmp(); self.emit(f'let {v} := {t}'); t = v
            out.append(t)
        return out

    def ex(self, e) -> str:
        if isinstance(e, ast.Constant):
            v = e.value
            if v is None: return 'V.none'
            if v is True: return '(V.bool true)'
            if v is False: return '(V.bool false)'
            if isinstance(v, int): return f'(V.int {v})' if v >= 0 else f'(V.int ({v}))'
            if isinstance(v, str): return f'(V.str {lstr(v)})'
            self.fail(f'constant {v!r}', e)
        if isinstance(e, ast.Name): return self.name(e)
        if isinstance(e, ast.Dict):
            if any(k is None for k in e.keys): self.fail('dict unpacking', e)
            ts = self.operands([x for kv in zip(e.keys, e.values) for x in kv])
            return '(← pyDict [' + ', '.join(f'({ts[2 * i]}, {ts[2 * i + 1]})' for i in range(len(e.keys))) + '])'
        if isinstance(e, ast.List): return '(V.list [' + ', '.join(self.operands(e.elts)) + '])'
        if isinstance(e, ast.Tuple): return '(V.tuple [' + ', '.join(self.operands(e.elts)) + '])'
        if isinstance(e, ast.Subscript):
            a, k = self.operands([e.value, e.slice])
            return f'(← pyGetItem {a} {k})'
        if isinstance(e, ast.BinOp):
            op = {ast.Add: 'pyAdd', ast.Sub: 'pySub', ast.Mult: 'pyMul'}.get(type(e.op))
            if not op: self.fail(f'operator {type(e.op).__name__}', e)
            a, b = self.operands([e.left, e.right])
            return f'(← {op} {a} {b})'
        if isinstance(e, (ast.Compare, ast.UnaryOp)): return f'(V.bool ({self.tst(e)}))'
        if isinstance(e, ast.Attribute): return self.attribute(e)
        if isinstance(e, ast.Call): return self.call(e)
        if isinstance(e, ast.IfExp):
            t = self.tmp(); self.emit(f'let mut {t} := V.none')
            self.ifexp_into(t, e)
            return t
        if isinstance(e, ast.BoolOp):
            t = self.tmp(); self.emit(f'let mut {t} := {self.ex(e.values[0])}')
            self.boolop_rest(t, e, 1)
            return t
        if isinstance(e, ast.NamedExpr):
            v = self.ex(e.value)
            if isinstance(e.value, ast.Name): pass
            self.emit(f'{esc(e.target.id)} := {v}')
            self.assigned.add(e.target.id)
            return esc(e.target.id)
        if isinstance(e, (ast.ListComp, ast.DictComp)): return self.comprehension(e)
        self.fail(f'expression {type(e).__name__}: {ast.unparse(e)}', e)

    def block(self):
        tr = self
        class B:
            def __enter__(s): tr.ind += 1
            def __exit__(s, *a): tr.ind -= 1
        return B()

    def branch(self, f):
        """run `f` one level deeper; definite assignment inside does not leak out"""
        saved = set(self.assigned)
        with self.block(): f()
        got = self.assigned
        self.assigned = saved
        return got

    def ifexp_into(self, t, e: ast.IfExp):
        c = self.tst(e.test)
        self.emit(f'if {c} then')
        def th(): self.emit(f'{t} := {self.ex(e.body)}')
        def el():
            if isinstance(e.orelse, ast.IfExp): self.ifexp_into(t, e.orelse)
            else: self.emit(f'{t} := {self.ex(e.orelse)}')
        a1 = self.branch(th)
        self.emit('else')
        a2 = self.branch(el)
        self.assigned |= (a1 & a2)

    def boolop_rest(self, t, e: ast.BoolOp, i):
        if i >= len(e.values): return
        cond = f'truthy {t}' if isinstance(e.op, ast.And) else f'!(truthy {t})'
        self.emit(f'if {cond} then')
        def f():
            self.emit(f'{t} := {self.ex(e.values[i])}')
            self.boolop_rest(t, e, i + 1)
        self.branch(f)

    def attribute(self, e: ast.Attribute):
        s = _src(e)
        # token type constants
        if isinstance(e.value, ast.Name) and e.value.id == PARSER_CLASS:
            if e.attr in self.p.tokens: return f'(V.str {lstr(e.attr)})'
            self.fail(f'{s} is not a token type', e)
        # ctx.parser.getTokenStream().tokens
        if e.attr == 'tokens' and isinstance(e.value, ast.Call) and not e.value.args and isinstance(e.value.func, ast.Attribute) \
                and e.value.func.attr == 'getTokenStream' and isinstance(e.value.func.value, ast.Attribute) \
                and e.value.func.value.attr == 'parser':
            return f'(← parserTokens self {self.ex(e.value.func.value.value)})'
        if e.attr in ('children', 'parentCtx', 'start', 'stop', 'tokenIndex', 'type'):
            if _src(e.value) == 'self': self.fail(f'attribute {s}', e)
            return f'(← pyAttr {self.ex(e.value)} {lstr(e.attr)})'
        self.fail(f'attribute {s}', e)

    def call(self, e: ast.Call):
        if e.keywords: self.fail('keyword arguments', e)
        f = e.func
        if isinstance(f, ast.Name):
            if f.id == 'len' and len(e.args) == 1: return f'(← pyLen {self.ex(e.args[0])})'
            if f.id == 'float' and len(e.args) == 1: return f'(← pyFloat {self.ex(e.args[0])})'
            if f.id == 'int' and len(e.args) == 1: return f'(← pyInt {self.ex(e.args[0])})'
            if f.id == 'range' and len(e.args) in (1, 2):
                ts = self.operands(e.args)
                if len(ts) == 1: ts = ['(V.int 0)'] + ts
                return f'(← pyRange {ts[0]} {ts[1]})'
            if f.id == 'isinstance': return f'(V.bool ({self.tst(e)}))'
            self.fail(f'call of {f.id}', e)
        if not isinstance(f, ast.Attribute): self.fail(f'call {ast.unparse(e)}', e)
        recv_src = _src(f.value)
        if recv_src == 'self':
            if f.attr == 'visit' and len(e.args) == 1: return f'(← self.visit {self.ex(e.args[0])})'
            if f.attr in self.helpers:
                h = self.helpers[f.attr]
                if h.mut_param is not None: self.fail(f'{f.attr} changes its argument and is used as an expression', e)
                if len(e.args) != len(h.params): self.fail(f'arity of {f.attr}', e)
                return f'(← {esc(f.attr)} self ' + ' '.join(self.operands(e.args)) + ')'
            self.fail(f'self.{f.attr}(...)', e)
        if recv_src == 'self.compiler' and f.attr == 'compile' and len(e.args) == 1:
            return f'(← self.compile {self.ex(e.args[0])})'
        if f.attr == 'pop':
            if isinstance(f.value, ast.NamedExpr):
                self.ex(f.value); target = f.value.target.id
            elif isinstance(f.value, ast.Name) and f.value.id in self.locals:
                target = f.value.id; self.name(f.value)
            else:
                self.fail('pop on something that is not a local', e)
            if target not in self.assigned: self.fail(f'pop on `{target}` which may be unassigned', e)
            if len(e.args) == 0: a = 'Option.none'
            elif len(e.args) == 1: a = f'(some {self.ex(e.args[0])})'
            else: self.fail('pop arguments', e)
            r = self.tmp()
            self.emit(f'let {r} ← pyPop {esc(target)} {a}')
            self.emit(f'{esc(target)} := {r}.2')
            return f'{r}.1'
        if f.attr in MUTATORS: self.fail(f'.{f.attr}(...) used as an expression', e)
        ts = self.operands([f.value] + list(e.args))
        recv, args = ts[0], ts[1:]
        n = len(args)
        if f.attr == 'getText' and n == 0: return f'(← pyGetText {recv})'
        if f.attr == 'getChild' and n == 1: return f'(← pyGetChild {recv} {args[0]})'
        if f.attr == 'strip' and n == 1: return f'(← pyStrip {recv} {args[0]})'
        if f.attr == 'split' and n == 1: return f'(← pySplit {recv} {args[0]})'
        if f.attr == 'isdigit' and n == 0: return f'(V.bool (← pyIsDigit {recv}))'
        if f.attr == 'copy' and n == 0: return f'(← pyCopy {recv})'
        if f.attr == 'items' and n == 0: return f'(← pyItems {recv})'
        if f.attr == 'get' and n == 2: return f'(← pyGet {recv} {args[0]} {args[1]})'
        if f.attr in self.acc_methods and n <= 1:
            # an accessor of the generated parser: what it returns depends on the class of the receiver (dynamic)
            a = 'Option.none' if n == 0 else f'(some {args[0]})'
            return f'(← ctxAcc accTable {recv} {lstr(f.attr)} {a})'
        self.fail(f'method .{f.attr}() with {n} argument(s)', e)

    def comprehension(self, e):
        acc = self.tmp('c')
        self.emit(f'let mut {acc} := ' + ('V.list []' if isinstance(e, ast.ListComp) else 'V.dict []'))
        saved_bound, saved_ind = list(self.bound), self.ind
        for g in e.generators:
            if g.ifs or g.is_async: self.fail('comprehension with a condition', e)
            self.for_header(g.target, g.iter)
            self.ind += 1
        if isinstance(e, ast.ListComp):
            self.emit(f'{acc} := (← pyAppend {acc} {self.ex(e.elt)})')
        else:
            k, v = self.operands([e.key, e.value])
            self.emit(f'{acc} := (← pySetItem {acc} {k} {v})')
        self.ind, self.bound = saved_ind, saved_bound
        return acc

    # -------------------------------------------------------------- tests (Bool context)
    def tst(self, e) -> str:
        if isinstance(e, ast.UnaryOp) and isinstance(e.op, ast.Not): return f'!({self.tst(e.operand)})'
        if isinstance(e, ast.Compare):
            if len(e.ops) != 1: self.fail('chained comparison', e)
            op, rhs = e.ops[0], e.comparators[0]
            if isinstance(op, (ast.Is, ast.IsNot)):
                if not (isinstance(rhs, ast.Constant) and rhs.value is None): self.fail('`is` with something other than None', e)
                a = self.ex(e.left)
                return f'isNone {a}' if isinstance(op, ast.Is) else f'!(isNone {a})'
            a, b = self.operands([e.left, rhs])
            if isinstance(op, ast.Eq): return f'V.eq {a} {b}'
            if isinstance(op, ast.NotEq): return f'!(V.eq {a} {b})'
            if isinstance(op, ast.Gt): return f'(← pyGt {a} {b})'
            if isinstance(op, ast.Lt): return f'(← pyLt {a} {b})'
            if isinstance(op, ast.In): return f'(← pyIn {a} {b})'
            if isinstance(op, ast.NotIn): return f'!(← pyIn {a} {b})'
            self.fail(f'comparison {type(op).__name__}', e)
        if isinstance(e, ast.BoolOp):
            c = self.tmp('c'); self.emit(f'let mut {c} := {self.tst(e.values[0])}')
            self.booltest_rest(c, e, 1)
            return c
        if isinstance(e, ast.Call) and isinstance(e.func, ast.Name) and e.func.id == 'isinstance' and len(e.args) == 2:
            x = self.ex(e.args[0]); k = _src(e.args[1])
            if k == 'MutableMapping': return f'isDict {x}'
            if k == 'MutableSequence': return f'isList {x}'
            if k.startswith(PARSER_CLASS + '.') and k[len(PARSER_CLASS) + 1:] in self.p.class_rule:
                return f'isRuleCtx {x} {lstr(self.p.class_rule[k[len(PARSER_CLASS) + 1:]])}'
            self.fail(f'isinstance(_, {k})', e)
        if isinstance(e, ast.Attribute) and e.attr in self.acc_methods and _src(e.value) != 'self':
            # `ctx.X` without a call: a bound method object, which is always true (AttributeError if the class has no X)
            return f'(← boundMethodTruth accTable {self.ex(e.value)} {lstr(e.attr)})'
        return f'truthy {self.ex(e)}'

    def booltest_rest(self, c, e: ast.BoolOp, i):
        if i >= len(e.values): return
        self.emit(f'if {c} then' if isinstance(e.op, ast.And) else f'if !{c} then')
        def f():
            self.emit(f'{c} := {self.tst(e.values[i])}')
            self.booltest_rest(c, e, i + 1)
        self.branch(f)

    # -------------------------------------------------------------- statements
    def set_path(self, root: str, keys: list, value: str) -> str:
        """the new value of `root` after `root[k1]…[kn] = value`"""
        r = esc(root)
        def go(cont, ks):
            if not ks: return value
            k = ks[0]
            inner = go(f'(← pyGetItem {cont} {k})', ks[1:])
            return f'(← pySetItem {cont} {k} {inner})'
        return go(r, keys)

    def lvalue(self, e, what):
        rp = root_path(e)
        if not rp: self.fail(f'{what}: target {ast.unparse(e)}', e)
        root, keys = rp
        if root in self.bound: self.fail(f'{what}: `{root}` is a loop variable', e)
        if root not in self.locals and root not in self.fn.params: self.fail(f'{what}: unknown `{root}`', e)
        if root in self.locals and root not in self.assigned: self.fail(f'{what}: `{root}` may be unassigned', e)
        return root, keys

    def for_header(self, target, it):
        """emit the `for … do` line (and the unpacking of a tuple target); returns nothing, caller indents"""
        if isinstance(it, ast.GeneratorExp):
            if len(it.generators) != 1 or it.generators[0].ifs: self.fail('generator expression', it)
            g = it.generators[0]
            self.for_header(g.target, g.iter)
            self.ind += 1
            # the generator is consumed lazily: its element expression is evaluated at the start of each iteration
            if not isinstance(target, ast.Name): self.fail('for target', target)
            self.emit(f'let {self.lv(target.id)} := {self.ex(it.elt)}')
            self.bound.append(target.id)
            self.ind -= 1
            return
        src = f'(← pyIter {self.ex(it)})'
        if isinstance(target, ast.Name):
            self.emit(f'for {self.lv(target.id)} in {src} do')
            self.bound.append(target.id)
        elif isinstance(target, ast.Tuple) and len(target.elts) == 2 and all(isinstance(x, ast.Name) for x in target.elts):
            v = self.tmp()
            self.emit(f'for {v} in {src} do')
            a, b = (self.lv(x.id) for x in target.elts)
            self.ind += 1
            self.emit(f'let ({a}, {b}) ← pyUnpack2 {v}')
            self.ind -= 1
            self.bound += [x.id for x in target.elts]
        else:
            self.fail('for target', target)

    def check_live_iteration(self, st: ast.For):
        """a `for` over a live container whose body may change that container is refused"""
        it = st.iter
        view = None
        if isinstance(it, ast.Call) and isinstance(it.func, ast.Attribute) and it.func.attr in ('items', 'keys', 'values') and not it.args:
            view = it.func.attr; it = it.func.value
        rp = root_path(it) if isinstance(it, (ast.Name, ast.Subscript)) else None
        if isinstance(it, ast.Attribute): self.fail('for over an attribute (a live list)', st) if mutated_roots(st.body, self.helpers) else None
        if rp is None: return
        root = rp[0]
        muts = mutated_roots(st.body, self.helpers)
        rebinds = any(isinstance(n, ast.Assign) and any(isinstance(t, ast.Name) and t.id == root for t in n.targets) for s in st.body for n in ast.walk(s))
        if root not in muts and not rebinds: return
        # the one shape let through: `for k, v in d.items():` whose body changes only *elements* `d[k]` in place
        # (`d[k].update(..)` / `d[k].extend(..)`: the set of keys is untouched) and uses `v` only in isinstance tests
        ok = view == 'items' and not rp[1] and isinstance(st.target, ast.Tuple) and len(st.target.elts) == 2 and not rebinds
        if ok:
            k, v = (x.id for x in st.target.elts)
            for s in st.body:
                for n in ast.walk(s):
                    if isinstance(n, ast.Assign) and any(root_path(t) and root_path(t)[0] == root for t in n.targets if isinstance(t, ast.Subscript)): ok = False
                    if isinstance(n, ast.Call) and isinstance(n.func, ast.Attribute) and n.func.attr in MUTATORS:
                        r2 = root_path(n.func.value)
                        if r2 and r2[0] == root and not (len(r2[1]) == 1 and isinstance(r2[1][0], ast.Name) and r2[1][0].id == k
                                                         and n.func.attr in ('update', 'extend', 'append')): ok = False
            uses = [n for s in st.body for n in ast.walk(s) if isinstance(n, ast.Name) and n.id == v]
            inst = [a for s in st.body for n in ast.walk(s) if isinstance(n, ast.Call) and isinstance(n.func, ast.Name)
                    and n.func.id == 'isinstance' for a in n.args[:1] if isinstance(a, ast.Name) and a.id == v]
            if len(uses) != len(inst): ok = False
        if not ok:
            self.fail(f'`for` over the live container `{root}` whose body changes it (CPython iterates the live object, the translation would iterate a snapshot)', st)

    def body(self, stmts):
        for st in stmts: self.stmt(st)

    def terminates(self, stmts):
        return bool(stmts) and isinstance(stmts[-1], (ast.Return, ast.Continue, ast.Raise))

    def stmt(self, st):
        if isinstance(st, ast.Expr) and isinstance(st.value, ast.Constant) and isinstance(st.value.value, str):
            return                                             # docstring
        if isinstance(st, ast.Expr) and isinstance(st.value, ast.Call) and isinstance(st.value.func, ast.Attribute) \
                and isinstance(st.value.func.value, ast.Name) and st.value.func.value.id == 'logger' \
                and not any(isinstance(n, (ast.NamedExpr, ast.Call)) for a in st.value.args for n in ast.walk(a)):
            return                                             # logging (arguments without calls / assignments): dropped
        if isinstance(st, ast.Pass): self.emit('pure ()'); return
        if isinstance(st, ast.Continue):
            self.emit('continue'); return
        if isinstance(st, ast.Break):
            if self.in_while: self.fail('break inside while', st)
            self.emit('break'); return
        if isinstance(st, ast.Return):
            if self.fn.mut_param is not None:
                if st.value is not None: self.fail('return of a value in a function that changes its argument', st)
                self.emit(f'return {esc(self.fn.mut_param)}'); return
            self.emit('return ' + (self.ex(st.value) if st.value is not None else 'V.none')); return
        if isinstance(st, ast.Assign):
            if len(st.targets) != 1: self.fail('multiple assignment targets', st)
            t = st.targets[0]
            if isinstance(t, ast.Name):
                if t.id in self.bound or t.id in self.fn.params: self.fail(f'assignment to `{t.id}`', st)
                v = self.ex(st.value)
                self.emit(f'{esc(t.id)} := {v}')
                self.assigned.add(t.id); return
            if isinstance(t, ast.Tuple) and len(t.elts) == 2 and all(isinstance(x, ast.Name) for x in t.elts):
                for x in t.elts:
                    if x.id in self.bound or x.id in self.fn.params: self.fail(f'assignment to `{x.id}`', st)
                v = self.ex(st.value)
                r = self.tmp()
                self.emit(f'let {r} ← pyUnpack2 {v}')
                self.emit(f'{esc(t.elts[0].id)} := {r}.1')
                self.emit(f'{esc(t.elts[1].id)} := {r}.2')
                self.assigned |= {t.elts[0].id, t.elts[1].id}; return
            if isinstance(t, ast.Subscript):
                # Python evaluates the right-hand side first, then the container and the key
                v = self.ex(st.value)
                if '(←' in v:
                    r = self.tmp(); self.emit(f'let {r} := {v}'); v = r
                root, keys = self.lvalue(t, 'item assignment')
                ks = self.operands(keys)
                self.emit(f'{esc(root)} := {self.set_path(root, ks, v)}'); return
            self.fail(f'assignment target {ast.unparse(t)}', st)
        if isinstance(st, ast.Expr) and isinstance(st.value, ast.Call) and isinstance(st.value.func, ast.Attribute):
            c = st.value; f = c.func
            if c.keywords: self.fail('keyword arguments', st)
            if _src(f.value) == 'self' and f.attr in self.helpers and self.helpers[f.attr].mut_param is not None:
                h = self.helpers[f.attr]
                if len(c.args) != 1 or not isinstance(c.args[0], ast.Name): self.fail(f'{f.attr}: argument must be a local', st)
                root, _ = self.lvalue(c.args[0], f.attr)
                self.emit(f'{esc(root)} := (← {esc(f.attr)} self {esc(root)})'); return
            if f.attr in ('append', 'extend', 'update') and len(c.args) == 1:
                fn = {'append': 'pyAppend', 'extend': 'pyExtend', 'update': 'pyUpdate'}[f.attr]
                root, keys = self.lvalue(f.value, f'.{f.attr}()')
                ks = self.operands(keys + [c.args[0]])
                arg, ks = ks[-1], ks[:-1]
                cur = esc(root)
                for k in ks: cur = f'(← pyGetItem {cur} {k})'
                self.emit(f'{esc(root)} := {self.set_path(root, ks, f"(← {fn} {cur} {arg})")}'); return
            self.fail(f'call statement {ast.unparse(c)}', st)
        if isinstance(st, ast.If):
            c = self.tst(st.test)
            self.emit(f'if {c} then')
            a1 = self.branch(lambda: self.body(st.body))
            a2 = set(self.assigned)
            if st.orelse:
                self.emit('else')
                a2 = self.branch(lambda: self.body(st.orelse))
            t1, t2 = self.terminates(st.body), self.terminates(st.orelse)
            if t1 and t2: pass
            elif t1: self.assigned |= a2
            elif t2: self.assigned |= a1
            else: self.assigned |= (a1 & a2)
            return
        if isinstance(st, ast.For):
            if st.orelse: self.fail('for … else', st)
            self.check_live_iteration(st)
            saved_bound, saved_ind = list(self.bound), self.ind
            self.for_header(st.target, st.iter)
            self.ind += 1
            saved = set(self.assigned)
            self.body(st.body)
            self.assigned = saved
            self.ind, self.bound = saved_ind, saved_bound
            return
        if isinstance(st, ast.While):
            if st.orelse: self.fail('while … else', st)
            d = self.tmp('w')
            self.emit(f'let mut {d} := false')
            self.emit('for _ in List.range self.whileFuel do')
            saved = set(self.assigned)
            self.ind += 1; self.in_while += 1
            c = self.tst(st.test)
            self.emit(f'if !({c}) then')
            with self.block():
                self.emit(f'{d} := true'); self.emit('break')
            self.body(st.body)
            self.ind -= 1; self.in_while -= 1
            self.assigned = saved
            self.emit(f'if !{d} then throw Err.nonTermination')
            return
        self.fail(f'statement {type(st).__name__}', st)

    def translate(self) -> str:
        fn = self.fn
        Alias(fn, self.helpers).run(fn.node.body, set())
        params = ' '.join(f'({esc(p)} : V)' for p in fn.params)
        head = f'-- {VISITOR_PY}: {VISITOR_CLASS}.{fn.name}\ndef {esc(fn.name)} (self : Self) {params} : M V := do'
        if fn.mut_param is not None: self.emit(f'let mut {esc(fn.mut_param)} := {esc(fn.mut_param)}')
        for x in self.locals: self.emit(f'let mut {esc(x)} := V.unbound')
        self.body(fn.node.body)
        if not self.terminates(fn.node.body):
            self.emit(f'return {esc(fn.mut_param)}' if fn.mut_param is not None else 'return V.none')
        return head + '\n' + '\n'.join(self.lines) + '\n'

HEADER = '''/- GENERATED by translators/py2lean_visitor.py from {path} — do not edit.
   Regenerated and compared on every run of the checks; see MalVerif/Py/PreludeVisitor.lean for the conventions. -/
{imports}
set_option linter.unusedVariables false
namespace MalVerif.Py.GenVisitor
open MalVerif.Py.Visitor

'''

def read_visitor(repo):
    path = os.path.join(repo, VISITOR_PY)
    tree = ast.parse(open(path, encoding='utf-8').read())
    cls = next((n for n in tree.body if isinstance(n, ast.ClassDef) and n.name == VISITOR_CLASS), None)
    if cls is None: raise Unsupported(f'{VISITOR_PY}: class {VISITOR_CLASS} not found')
    if [_src(b) for b in cls.bases] != ['ParseTreeVisitor']: raise Unsupported(f'{VISITOR_CLASS}: base classes')
    fns = {}
    for st in cls.body:
        if isinstance(st, ast.FunctionDef):
            if st.decorator_list: raise Unsupported(f'{VISITOR_CLASS}.{st.name}: decorator')
            if st.name == '__init__': continue          # stores the compiler; no behaviour of its own
            if st.name in ('visit', 'visitChildren', 'visitTerminal', 'visitErrorNode', 'defaultResult', 'aggregateResult',
                           'shouldVisitNextChild'):
                raise Unsupported(f'{VISITOR_CLASS} overrides ParseTreeVisitor.{st.name}')
            fns[st.name] = FnInfo(st)
        elif isinstance(st, ast.Expr) and isinstance(st.value, ast.Constant): pass
        else: raise Unsupported(f'{VISITOR_CLASS}: class-level statement {type(st).__name__}')
    init = next((s for s in cls.body if isinstance(s, ast.FunctionDef) and s.name == '__init__'), None)
    if init is not None:
        for n in ast.walk(init):
            if isinstance(n, ast.Attribute) and isinstance(n.ctx, ast.Store) and n.attr not in ('compiler', 'current_file'):
                raise Unsupported(f'{VISITOR_CLASS}.__init__ sets self.{n.attr}')
    # which helpers change a parameter in place
    for f in fns.values():
        for n in ast.walk(f.node):
            if isinstance(n, ast.Call) and isinstance(n.func, ast.Attribute) and _src(n.func.value) == 'self' and n.func.attr in fns:
                f.calls.add(n.func.attr)
        m = [p for p in mutated_roots(f.node.body) if p in f.params]
        if m:
            if len(m) > 1 or f.returns_value or f.name.startswith('visit'):
                raise Unsupported(f'{VISITOR_CLASS}.{f.name}: changes its parameter {m} in place')
            f.mut_param = m[0]
    return fns

def gen_visitor(fns: dict, pinfo: ParserInfo) -> str:
    out = HEADER.format(path=VISITOR_PY, imports='import MalVerif.Py.PreludeVisitor\nimport MalVerif.Py.GenVisitor.Parser')
    done, order = set(), []
    def visit(name, stack=()):
        if name in done: return
        if name in stack: raise Unsupported(f'{VISITOR_CLASS}.{name}: direct recursion between methods')
        for c in sorted(fns[name].calls): visit(c, stack + (name,))
        done.add(name); order.append(name)
    for n in fns: visit(n)
    for n in order:
        out += Tr(fns[n], fns, pinfo).translate() + '\n'
    # dynamic dispatch of `tree.accept(self)`
    out += '/-- `tree.accept(self)`: the `visit<Rule>` method of the visitor if it has one, else `visitChildren`; a\n'
    out += 'terminal node gives `visitTerminal` = `defaultResult()` = `None` -/\n'
    out += 'def accept (self : Self) (tree : V) : M V :=\n  match tree with\n  | .ctx (.rule r _) _ =>\n'
    first = True
    for rule, vname in pinfo.rule_visit.items():
        if vname in fns:
            if fns[vname].params != ['ctx'] and len(fns[vname].params) != 1:
                raise Unsupported(f'{VISITOR_CLASS}.{vname}: parameters')
            out += f'    {"if" if first else "else if"} r == {lstr(rule)} then {esc(vname)} self tree\n'
            first = False
    out += ('    else ' if not first else '    ') + 'visitChildren self tree\n'
    out += '  | .ctx (.tok ..) _ => pure V.none\n  | _ => throw Err.attributeError\n\n'
    out += '/-- `self.visit`, with the recursion depth bounded by `fuel` (RecursionError when it runs out) -/\n'
    out += 'def visitF (compile : V → M V) (tokens : List V) (whileFuel : Nat) : Nat → V → M V\n'
    out += '  | 0, _ => throw Err.recursion\n'
    out += '  | fuel + 1, tree => accept { visit := visitF compile tokens whileFuel fuel, compile := compile, tokens := tokens, whileFuel := whileFuel } tree\n\n'
    out += 'end MalVerif.Py.GenVisitor\n'
    return out

def generate(repo, modules=None) -> dict[str, str]:
    pinfo = read_parser(repo)
    out = {'Parser': gen_parser(pinfo)}
    if modules and set(modules) <= {'Parser'}: return out
    out['Visitor'] = gen_visitor(read_visitor(repo), pinfo)
    return out

def main(argv):
    repo = argv[1]
    try:
        out = generate(repo)
    except Unsupported as e:
        print(f'UNSUPPORTED: {e}')
        return 3
    if argv[2] == '--check':
        bad = [m for m, t in out.items() if not os.path.exists(os.path.join(argv[3], m + '.lean'))
               or open(os.path.join(argv[3], m + '.lean'), encoding='utf-8').read() != t]
        print('changed: ' + ' '.join(bad) if bad else 'unchanged')
        return 1 if bad else 0
    os.makedirs(argv[2], exist_ok=True)
    for m, t in out.items():
        with open(os.path.join(argv[2], m + '.lean'), 'w', encoding='utf-8') as fh: fh.write(t)
    return 0

if __name__ == '__main__':
    sys.exit(main(sys.argv))
